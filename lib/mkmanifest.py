"""regenerates MANIFEST.json from the table below (run after adding a check)"""
import json, os, sys
HERE = os.path.dirname(os.path.abspath(__file__))
sys.path.insert(0, HERE)
VERIF = os.path.dirname(HERE)

TECH = ('bounded symbolic execution of rustc-emitted LLVM IR (crate + std, -O0) by llsymex; each assertion decided by '
        'z3 / cvc5 (int-blasting) per feasible path; counterexamples replayed natively')
NOTE = ('trusted: llsymex IR semantics (validated by native replay of explored paths and of every counterexample), allocator never fails, '
        'constant-hash stub for RandomState, single thread, opt-level 0 IR; bounds per evidence.coverage.bounds')

CLAIMED = {
    'C06': ('4.C06', 'every str_* search/substring/replace function explored on all paths for every length combination within the bound, all '
            'characters and all i32 arguments symbolic, against branch-free transcriptions of the SMT-LIB 2.6 definitions'),
    'C08': ('4.C08', 'parse_smt_literal on all texts of up to 4/5 symbolic ASCII bytes plus escape templates against an independent grammar-level '
            'decoder; Display through the real core::fmt on up to 2/3 symbolic code points plus escape-spelling templates, with printable-ASCII, '
            'quote-doubling and parse round-trip assertions'),
    'C09': ('4.C09', 'lexicographic order laws and definitional oracle on triples of symbolic strings; str_to_int for every length 0..11 with symbolic '
            'characters in both build configurations (IR with overflow checks on and off), panics required exactly on overflow; from_int / codes symbolic'),
    'C15': ('4.C15', 'LoopRange contains/includes/add/shift decided at full u32 width; scale for a list of concrete k with full-width parameters; mul and '
            'right_mul_is_exact against the union-of-multiples definition with parameters bounded in width'),
    'C17': ('4.C17', 'every public SmtString constructor on a symbolic u32 (full range) or a symbolic Rust char over all scalar values; is_good and the '
            'replacement rule asserted; results usable by ReManager::str without panic'),
    'C12': ('4.C12', 'merge_partitions explored on every feasible path for n x m <= 2x2 (quick) / 3x3 (thorough) symbolic intervals; refinement, '
            'maximality on adjacent characters, complement = intersection with least witness, well-formedness; algebraic laws and '
            'merge_partition_list order independence on triples of partitions'),
    'C20': ('4.C20', 'full-width symbolic check of every CharSet operation against its set-theoretic definition (two symbolic intervals, '
            'symbolic u32 member); inter_list up to 3/4 sets'),
    'C11': ('4.C11', 'all feasible paths of the real CharPartition code for partitions of up to 3 (quick) / 4 (thorough) intervals with every '
            'end point, query character, query set and class index symbolic over the full range; construction via push, from_set, try_from_iter/list '
            'over permutations; solver verdict per path, no sampling inside the bound'),
}

ALL = ['C%02d' % i for i in range(1, 21)]


def main():
    checks = []
    for pid in ALL:
        if pid not in CLAIMED:
            continue
        ref, text = CLAIMED[pid]
        checks.append({
            'property_id': pid,
            'quick_cmd': './check %s --tier quick' % pid,
            'thorough_cmd': './check %s --tier thorough' % pid,
            'evidence_file': 'evidence/%s.json' % pid,
            'replay_cmd_template': './check --replay {path}',
            'engine': 'llsymex',
            'level_claimed': {'category': 'model_checking', 'text': text, 'design_ref': 'DESIGN.md §' + ref},
            'level_note': NOTE,
            'technique': TECH,
        })
    na = [{'property_id': p, 'reason': 'check not built yet at this commit (planned with the same engine, see DESIGN.md §4)'}
          for p in ALL if p not in CLAIMED]
    m = {
        'version': 1,
        'setup_cmd': './setup.sh',
        'hooks': {
            'guard': 'verif',
            'enable': 'RUSTFLAGS="--cfg verif" on a scratch copy of /repo with add-only harness modules appended (lib/build.py); no hook is committed in /repo',
            'baseline_off_cmd': 'cd /repo && cargo test --workspace --no-fail-fast --offline',
            'source_commits': [],
            'add_only': True,
        },
        'engines': [{'name': 'llsymex', 'path': 'lib/engine.py', 'serves_properties': sorted(CLAIMED),
                     'kind_free_text': 'symbolic executor over rustc-emitted LLVM IR (crate + std via -Zbuild-std), z3 5.1 incremental + cvc5 int-blasting portfolio, native replay'}],
        'checks': checks,
        'not_applicable': na,
        'notes': 'exit 2 from a check means inconclusive (limit hit, unsupported IR, solver gave up, non-reproducing model, vacuous harness); never reported as success. '
                 'Genuine defects found and repaired are listed as fixed: lines in known_findings.txt.',
    }
    with open(os.path.join(VERIF, 'MANIFEST.json'), 'w') as f:
        json.dump(m, f, indent=1)
    import jsonschema
    jsonschema.validate(m, json.load(open('/root/.vp/MANIFEST.schema.json')))
    print('MANIFEST.json ok: %d checks, %d not_applicable' % (len(checks), len(na)))


if __name__ == '__main__':
    main()
