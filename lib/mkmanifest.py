"""regenerates MANIFEST.json from the table below (run after adding a check)"""
import json, os, sys
HERE = os.path.dirname(os.path.abspath(__file__))
sys.path.insert(0, HERE)
VERIF = os.path.dirname(HERE)

TECH = ('bounded symbolic execution of rustc-emitted LLVM IR (crate + std, -O0) by llsymex; each assertion decided by '
        'z3 / cvc5 (int-blasting) per feasible path; counterexamples replayed natively')
NOTE = ('trusted: llsymex IR semantics (validated by native replay of explored paths and of every counterexample), allocator never fails, '
        'constant-hash stub for RandomState, single thread, opt-level 0 IR; bounds per evidence.coverage.bounds')

CLAIMED = {
    'C01': ('4.C01 / 9', 'for each construction shape (structure concrete; range end points, characters, loop bounds symbolic) every feasible path of the real '
            'constructors + str_in_re is explored and membership / nullable compared with a branch-free transcription of the SMT-LIB denotation on strings '
            'of bounded length with symbolic characters; ReManager API and re_* wrappers'),
    'C02': ('4.C02 / 9', 'compile/try_compile per shape: bounded language equality, totality of next for a symbolic character in every state, and the '
            'inductive step delta(state_i, c) = state of char_derivative(term_i, c) with states = derivative closure in BFS order, which with C03 gives '
            'acceptance = membership for strings of any length inside the shape space'),
    'C03': ('4.C03 / 9', 'char_derivative is the left quotient (oracle on c.w), class_derivative is the quotient for a symbolic member of every class, classes '
            'cover the alphabet, set_derivative Ok/Err classification and value for a symbolic set and member, BadClassId for symbolic invalid ids'),
    'C04': ('4.C04 / 9', 'Hopcroft refine on every complete transition table up to 4 states (all successors and final flags symbolic) against Moore '
            'distinguishability; Automaton::minimize on builder-made automata with symbolic labels/targets: bisimulation of initial states on the union '
            'automaton (language equality for all lengths on the path), pairwise distinguishable result, Nerode count; compiled automata via C02'),
    'C05': ('4.C05 / 9', 'is_empty_re vs get_string agreement, witness well-formed and accepted by membership test, oracle and compiled automaton; emptiness '
            'implies no member among bounded symbolic strings and no nullable derivative'),
    'C07': ('4.C07 / 9', 'rebuild of a construction after histories chosen by symbolic selectors (all interleavings of an 8-entry menu up to the bound) gives the '
            'pointer-identical term; == iff identity; complement involution without fixed point; language independent of history; thread-local manager variant'),
    'C10': ('4.C10 / 9', 'str_replace_re / str_replace_re_all through the thread-local manager against the SMT-LIB leftmost-shortest definition written as a '
            'boolean formula over all concrete match positions of a symbolic subject string'),
    'C13': ('4.C13 / 9', 'arbitrary builder call sequences (symbolic overlapping labels, targets, defaults, final marks) with a free symbolic witness character: Ok '
            'implies no conflict and no uncovered character, delta/initial/final as specified; complete disjoint specifications are accepted'),
    'C14': ('4.C14 / 9', 'builder-made automata with symbolic labels and targets: reachability fixpoint vs remove_unreachable_states (bisimulation + order), combined '
            'partition uniformity for symbolic x,y, alphabet picks, compile_successors table = next for every state/index, iterators and counters; '
            'CompactTableBuilder with a symbolic choice of non-default cells'),
    'C16': ('4.C16 / 9', 'for ordered pairs of shapes, included_in = true implies sem(r,w) => sem(s,w) for symbolic w up to the bound; unions of the pair keep every member'),
    'C18': ('4.C18 / 9', 'start_char for a symbolic character against emptiness of the derivative and against the oracle in both directions; start_class per class with '
            'a symbolic member; BadClassId'),
    'C19': ('4.C19 / 9', 'iter_derivatives: e first, pairwise distinct, closed under char_derivative for a symbolic character; try_compile with a symbolic bound returns '
            'Some exactly when the closure fits; compile has as many states'),
    'C06': ('4.C06', 'every str_* search/substring/replace function explored on all paths for every length combination within the bound, all '
            'characters and all i32 arguments symbolic, against branch-free transcriptions of the SMT-LIB 2.6 definitions'),
    'C08': ('4.C08', 'parse_smt_literal on all texts of up to 4/5 symbolic ASCII bytes plus escape templates against an independent grammar-level '
            'decoder; Display through the real core::fmt on up to 2/3 symbolic code points plus escape-spelling templates, with printable-ASCII, '
            'quote-doubling and parse round-trip assertions'),
    'C09': ('4.C09', 'lexicographic order laws and definitional oracle on triples of symbolic strings; str_to_int for every length 0..11 with symbolic '
            'characters in both build configurations (IR with overflow checks on and off), panics required exactly on overflow; from_int / codes symbolic'),
    'C15': ('4.C15', 'LoopRange contains/includes/add/shift decided at full u32 width; scale for a list of concrete k with full-width parameters; mul and '
            'right_mul_is_exact against the union-of-multiples definition with parameters bounded in width'),
    'C17': ('4.C17', 'every public SmtString constructor on a symbolic u32 (full range) or a symbolic Rust char over all scalar values; is_good and the '
            'replacement rule asserted; results usable by ReManager::str without panic'),
    'C12': ('4.C12', 'merge_partitions explored on every feasible path for n x m <= 2x2 (quick) / 3x3 (thorough) symbolic intervals; refinement, '
            'maximality on adjacent characters, complement = intersection with least witness, well-formedness; algebraic laws and '
            'merge_partition_list order independence on triples of partitions'),
    'C20': ('4.C20', 'full-width symbolic check of every CharSet operation against its set-theoretic definition (two symbolic intervals, '
            'symbolic u32 member); inter_list up to 3/4 sets'),
    'C11': ('4.C11', 'all feasible paths of the real CharPartition code for partitions of up to 3 (quick) / 4 (thorough) intervals with every '
            'end point, query character, query set and class index symbolic over the full range; construction via push, from_set, try_from_iter/list '
            'over permutations; solver verdict per path, no sampling inside the bound'),
}

ALL = ['C%02d' % i for i in range(1, 21)]


def main():
    checks = []
    for pid in ALL:
        if pid not in CLAIMED:
            continue
        ref, text = CLAIMED[pid]
        checks.append({
            'property_id': pid,
            'quick_cmd': './check %s --tier quick' % pid,
            'thorough_cmd': './check %s --tier thorough' % pid,
            'evidence_file': 'evidence/%s.json' % pid,
            'replay_cmd_template': './check --replay {path}',
            'engine': 'llsymex',
            'level_claimed': {'category': 'model_checking', 'text': text, 'design_ref': 'DESIGN.md §' + ref},
            'level_note': NOTE,
            'technique': TECH,
        })
    na = [{'property_id': p, 'reason': 'check not built yet at this commit (planned with the same engine, see DESIGN.md §4)'}
          for p in ALL if p not in CLAIMED]
    for c in checks:
        if c['property_id'] in ('C15', 'C20'):
            c['technique'] = TECH + '; cross-checked by Kani 0.68 / CBMC (second engine) on the same assertions'
    m = {
        'version': 1,
        'setup_cmd': './setup.sh',
        'hooks': {
            'guard': 'verif',
            'enable': 'RUSTFLAGS="--cfg verif" on a scratch copy of /repo with add-only harness modules appended (lib/build.py); no hook is committed in /repo',
            'baseline_off_cmd': 'cd /repo && cargo test --workspace --no-fail-fast --offline',
            'source_commits': [],
            'add_only': True,
        },
        'engines': [{'name': 'kani', 'path': 'kani/src/lib.rs', 'serves_properties': ['C15', 'C20'],
                     'kind_free_text': 'Kani 0.68 / CBMC 6.11 proof harnesses over the public API, run by the C15 and C20 checks as a second, independent encoding'},
                    {'name': 'llsymex', 'path': 'lib/engine.py', 'serves_properties': sorted(CLAIMED),
                     'kind_free_text': 'symbolic executor over rustc-emitted LLVM IR (crate + std via -Zbuild-std), z3 5.1 incremental + cvc5 int-blasting portfolio, native replay'}],
        'checks': checks,
        'not_applicable': na,
        'notes': 'exit 2 from a check means inconclusive (limit hit, unsupported IR, solver gave up, non-reproducing model, vacuous harness); never reported as success. '
                 'Genuine defects found and repaired are listed as fixed: lines in known_findings.txt.',
    }
    with open(os.path.join(VERIF, 'MANIFEST.json'), 'w') as f:
        json.dump(m, f, indent=1)
    import jsonschema
    jsonschema.validate(m, json.load(open('/root/.vp/MANIFEST.schema.json')))
    print('MANIFEST.json ok: %d checks, %d not_applicable' % (len(checks), len(na)))


if __name__ == '__main__':
    main()
