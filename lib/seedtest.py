"""seedtest.py <prop> <seed-dir> <k> [--checks C01,C03]

Confirms a seeded change (patch<k>.diff + demo<k>.rs produced by an independent sub-agent) in a scratch worktree:
  1. the patched crate passes the unedited test suite, 2. the demo fails with the patch, 3. passes without it;
then runs the registered quick check(s) against the patched tree (VERIF_REPO points at the scratch worktree, which is
equivalent to `git -C /repo apply` + run + `git -C /repo checkout -- .` but leaves /repo untouched) and records
everything under /verif/seeded/<prop>-<k>/.  The scratch worktree and its build output are removed at the end."""
import json
import os
import re
import shutil
import subprocess
import sys
import time

VERIF = os.path.dirname(os.path.dirname(os.path.abspath(__file__)))


def sh(cmd, cwd=None, env=None, timeout=3600):
    e = dict(os.environ)
    e['CARGO_NET_OFFLINE'] = 'true'
    if env:
        e.update(env)
    r = subprocess.run(cmd, shell=True, cwd=cwd, env=e, capture_output=True, text=True, timeout=timeout)
    return r.returncode, r.stdout + r.stderr


def main():
    prop, sdir, k = sys.argv[1], sys.argv[2], sys.argv[3]
    checks = [prop]
    release = False
    global OUTNAME
    OUTNAME = None
    for a in sys.argv[4:]:
        if a.startswith('--name='):
            OUTNAME = a.split('=', 1)[1]
        if a.startswith('--checks='):
            checks = a.split('=', 1)[1].split(',')
        if a == '--release':
            release = True
    patch = os.path.join(sdir, 'patch%s.diff' % k)
    demo = os.path.join(sdir, 'demo%s.rs' % k)
    wt = '/tmp/sv-%s-%s-%d' % (prop, k, os.getpid())
    sh('git -C /repo worktree remove --force %s' % wt)
    rc, out = sh('git -C /repo worktree add -q --detach %s HEAD' % wt)
    meta = {'property': prop, 'seed': k, 'repo_head': sh('git -C /repo rev-parse --short HEAD')[1].strip(), 'ran': []}
    rel = ' --release' if release else ''
    try:
        tdir = os.path.join(wt, 'target')
        env = {'CARGO_TARGET_DIR': tdir}
        rc, out = sh('git apply %s' % patch, cwd=wt)
        if rc != 0:
            meta['error'] = 'patch does not apply: ' + out[-500:]
            return finish(meta, prop, k, patch, demo, sdir, ok=False)
        rc, out = sh('cargo test --offline' + rel, cwd=wt, env=env)
        res = re.findall(r'test result: (\w+)\. (\d+) passed; (\d+) failed', out)
        meta['suite_with_patch'] = res
        meta['ran'].append('cargo test --offline%s (patched): %s' % (rel, res))
        suite_ok = rc == 0 and all(r[0] == 'ok' for r in res) and len(res) >= 2
        # demo with patch
        is_unit = 'mod ' in open(demo).read() and '#[cfg(test)]' in open(demo).read() and 'use aws_smt_strings' not in open(demo).read()
        os.makedirs(os.path.join(wt, 'tests'), exist_ok=True)
        shutil.copy(demo, os.path.join(wt, 'tests', 'seed_demo.rs'))
        rc1, out1 = sh('cargo test --offline%s --test seed_demo' % rel, cwd=wt, env=env)
        meta['ran'].append('demo with patch: exit %d' % rc1)
        sh('git apply -R %s' % patch, cwd=wt)
        rc2, out2 = sh('cargo test --offline%s --test seed_demo' % rel, cwd=wt, env=env)
        meta['ran'].append('demo without patch: exit %d' % rc2)
        os.unlink(os.path.join(wt, 'tests', 'seed_demo.rs'))
        meta['demo_fails_with_patch'] = rc1 != 0 and 'test result: FAILED' in out1
        meta['demo_passes_without_patch'] = rc2 == 0
        meta['suite_passes_with_patch'] = suite_ok
        confirmed = suite_ok and meta['demo_fails_with_patch'] and meta['demo_passes_without_patch']
        meta['confirmed'] = confirmed
        if not confirmed:
            meta['demo_output_with_patch'] = out1[-1500:]
            meta['demo_output_without_patch'] = out2[-800:]
            return finish(meta, prop, k, patch, demo, sdir, ok=False)
        # run the checks against the patched tree
        sh('git apply %s' % patch, cwd=wt)
        shutil.rmtree(tdir, ignore_errors=True)
        meta['checks'] = {}
        for c in checks:
            t0 = time.time()
            rc, out = sh('%s/check %s --tier quick --no-evidence' % (VERIF, c), cwd=VERIF, env={'VERIF_REPO': wt, 'VERIF_REPLAY_DIR': '/tmp/seed-replays'}, timeout=7200)
            viol = [l for l in out.split('\n') if l.startswith('VIOLATION') or l.startswith('INCONCLUSIVE') or l.startswith('KNOWN')]
            det = [l for l in out.split('\n') if l.startswith('  vh_')]
            meta['checks'][c] = {'exit': rc, 'lines': viol[:6], 'detail': det[:4], 'wall_s': round(time.time() - t0, 1),
                                 'summary': [l for l in out.split('\n') if l.startswith(c + ' quick')]}
            meta['ran'].append('VERIF_REPO=<patched worktree> ./check %s --tier quick -> exit %d' % (c, rc))
        meta['detected_by'] = [c for c in checks if meta['checks'][c]['exit'] == 1 and any(l.startswith('VIOLATION') for l in meta['checks'][c]['lines'])]
        return finish(meta, prop, k, patch, demo, sdir, ok=True)
    finally:
        sh('git -C /repo worktree remove --force %s' % wt)
        shutil.rmtree(wt, ignore_errors=True)


def finish(meta, prop, k, patch, demo, sdir, ok):
    d = os.path.join(VERIF, 'seeded', OUTNAME or '%s-%s' % (prop, k))
    if ok:
        os.makedirs(d, exist_ok=True)
        shutil.copy(patch, os.path.join(d, 'patch.diff'))
        shutil.copy(demo, os.path.join(d, 'demo.rs'))
        notes = os.path.join(sdir, 'notes.md')
        if os.path.exists(notes):
            meta['needs_to_manifest'] = open(notes).read()[:3000]
        with open(os.path.join(d, 'meta.json'), 'w') as f:
            json.dump(meta, f, indent=1)
    print(json.dumps({k2: meta.get(k2) for k2 in ('property', 'seed', 'confirmed', 'detected_by', 'error', 'suite_with_patch',
                                                 'demo_fails_with_patch', 'demo_passes_without_patch')}))
    if ok:
        for c, v in meta.get('checks', {}).items():
            print(' ', c, 'exit', v['exit'], v['wall_s'], 's', v['lines'][:2], v['detail'][:1])
    else:
        print(json.dumps(meta)[:1500])


if __name__ == '__main__':
    main()
