"""Minimal LLVM-IR (textual, rustc -O0 flavour) parser: module index, types, constants, instructions."""
import re, os, sys, mmap

TOK = re.compile(r'''\s*(?:
  (?P<str>c"(?:[^"\\]|\\[0-9A-Fa-f]{2}|\\\\)*") |
  (?P<local>%(?:"(?:[^"\\]|\\.)*"|[-a-zA-Z$._0-9]+)) |
  (?P<glob>@(?:"(?:[^"\\]|\\.)*"|[-a-zA-Z$._0-9]+)) |
  (?P<meta>![-a-zA-Z$._0-9]*) |
  (?P<attr>\#\d+) |
  (?P<hex>0x[KLMHR]?[0-9A-Fa-f]+) |
  (?P<num>-?\d+(?:\.\d+(?:[eE][+-]?\d+)?)?) |
  (?P<word>[a-zA-Z_][a-zA-Z0-9_.]*) |
  (?P<punct><\{|\}>|\.\.\.|[\[\](){}<>,=*:|])
)''', re.X)


def tokenize(line):
    toks = []
    pos = 0
    n = len(line)
    while pos < n:
        m = TOK.match(line, pos)
        if not m:
            rest = line[pos:].strip()
            if not rest or rest.startswith(';'):
                break
            raise SyntaxError('cannot tokenize: %r' % line[pos:pos + 60])
        if m.end() == pos:
            break
        kind = m.lastgroup
        toks.append((kind, m.group(kind)))
        pos = m.end()
    return toks


# ---------------------------------------------------------------- types
# ('i',n) ('ptr',) ('void',) ('f',bits) ('arr',n,T) ('struct',(T..),packed) ('vec',n,T) ('label',) ('meta',)
PTR = ('ptr',)
VOID = ('void',)


class TypeCtx:
    def __init__(self):
        self.named = {}      # name -> type or raw token list (lazy)
        self._layout = {}

    def sizeof(self, t):
        return self.layout(t)[0]

    def alignof(self, t):
        return self.layout(t)[1]

    def layout(self, t):
        r = self._layout.get(t)
        if r is not None:
            return r
        k = t[0]
        if k == 'i':
            n = t[1]
            sz = (n + 7) // 8
            al = 1
            while al < sz:
                al *= 2
            if al > 16:
                al = 16
            sz = (sz + al - 1) // al * al
            r = (sz, al, None)
        elif k == 'ptr':
            r = (8, 8, None)
        elif k == 'f':
            r = (t[1] // 8, t[1] // 8, None)
        elif k == 'arr':
            es, ea, _ = self.layout(t[2])
            r = (es * t[1], ea, None)
        elif k == 'vec':
            es, ea, _ = self.layout(t[2])
            sz = es * t[1]
            al = 1
            while al < sz:
                al *= 2
            r = (sz, min(al, 16) if sz <= 16 else al, None)
        elif k == 'struct':
            offs = []
            off = 0
            mal = 1
            for ft in t[1]:
                fs, fa, _ = self.layout(ft)
                if t[2]:
                    fa = 1
                off = (off + fa - 1) // fa * fa
                offs.append(off)
                off += fs
                mal = max(mal, fa)
            off = (off + mal - 1) // mal * mal
            r = (off, mal, tuple(offs))
        elif k == 'void':
            r = (0, 1, None)
        else:
            raise ValueError('layout of %r' % (t,))
        self._layout[t] = r
        return r

    def field_offset(self, t, i):
        return self.layout(t)[2][i]


class P:
    """token stream parser"""

    def __init__(self, toks, tc):
        self.t = toks
        self.i = 0
        self.tc = tc

    def peek(self, k=0):
        j = self.i + k
        return self.t[j] if j < len(self.t) else (None, None)

    def next(self):
        x = self.t[self.i]
        self.i += 1
        return x

    def accept(self, val):
        if self.i < len(self.t) and self.t[self.i][1] == val:
            self.i += 1
            return True
        return False

    def expect(self, val):
        x = self.next()
        if x[1] != val:
            raise SyntaxError('expected %r got %r in %r' % (val, x, self.t[max(0, self.i - 8):self.i + 4]))

    def at_end(self):
        return self.i >= len(self.t)

    # ---- types
    def parse_type(self):
        k, v = self.next()
        if k == 'word':
            if v[0] == 'i' and v[1:].isdigit():
                t = ('i', int(v[1:]))
            elif v == 'ptr':
                t = PTR
                if self.peek()[1] == 'addrspace':
                    self.next(); self.expect('('); self.next(); self.expect(')')
            elif v == 'void':
                t = VOID
            elif v == 'float':
                t = ('f', 32)
            elif v == 'double':
                t = ('f', 64)
            elif v == 'half':
                t = ('f', 16)
            elif v == 'x86_fp80':
                t = ('f', 80)
            elif v == 'fp128':
                t = ('f', 128)
            elif v == 'label':
                t = ('label',)
            elif v == 'metadata':
                t = ('meta',)
            elif v == 'token':
                t = ('token',)
            elif v == 'opaque':
                t = ('struct', (), False)
            else:
                raise SyntaxError('type? %r' % v)
        elif k == 'local':
            t = self.tc_named(v)
        elif v == '[':
            n = int(self.next()[1]); self.expect('x'); et = self.parse_type(); self.expect(']')
            t = ('arr', n, et)
        elif v == '{':
            t = ('struct', tuple(self.parse_type_list('}')), False)
        elif v == '<{':
            t = ('struct', tuple(self.parse_type_list('}>')), True)
        elif v == '<':
            n = int(self.next()[1]); self.expect('x'); et = self.parse_type(); self.expect('>')
            t = ('vec', n, et)
        else:
            raise SyntaxError('type? %r %r' % (k, v))
        # function type suffix:  T (args...)   -- only appears in call of varargs / old style
        while self.peek()[1] == '(' and self._looks_like_fnty():
            self.next()
            depth = 1
            while depth:
                x = self.next()[1]
                if x == '(':
                    depth += 1
                elif x == ')':
                    depth -= 1
            t = ('fn',)
            if self.peek()[1] == '*':
                self.next(); t = PTR
        return t

    def _looks_like_fnty(self):
        return False

    def parse_type_list(self, close):
        out = []
        if self.accept(close):
            return out
        while True:
            out.append(self.parse_type())
            if self.accept(close):
                return out
            self.expect(',')

    def tc_named(self, name):
        tc = self.tc
        v = tc.named.get(name)
        if v is None:
            raise SyntaxError('unknown named type ' + name)
        if isinstance(v, list):
            tc.named[name] = ('struct', (), False)  # break recursion (opaque)
            t = P(v, tc).parse_type()
            tc.named[name] = t
            return t
        return v

    # ---- constants / operands.  returns operand descriptors:
    # ('c', value) python int ; ('l', name) ; ('g', name) ; ('undef',) ; ('zero',) ;
    # ('agg', [ops]) ; ('cexpr', op, ...) ; ('bytes', b'..') ; ('null',)
    def parse_value(self, ty):
        k, v = self.next()
        if k == 'num':
            if '.' in v or 'e' in v or 'E' in v:
                return ('cf', float(v))
            n = int(v)
            if ty[0] == 'i':
                n &= (1 << ty[1]) - 1
            return ('c', n)
        if k == 'hex':
            return ('cf', v)
        if k == 'local':
            return ('l', v)
        if k == 'glob':
            return ('g', v)
        if k == 'str':
            return ('bytes', decode_cstr(v))
        if k == 'word':
            if v == 'true':
                return ('c', 1)
            if v == 'false':
                return ('c', 0)
            if v == 'null':
                return ('c', 0)
            if v in ('undef', 'poison'):
                return ('undef',)
            if v == 'zeroinitializer':
                return ('zero',)
            if v == 'none':
                return ('c', 0)
            if v == 'splat':
                self.expect('(')
                et = self.parse_type(); ev = self.parse_value(et)
                self.expect(')')
                return ('agg', [('tv', et, ev)] * ty[1])
            if v in ('getelementptr', 'ptrtoint', 'inttoptr', 'bitcast', 'trunc', 'zext', 'sext', 'add', 'sub',
                     'mul', 'and', 'or', 'xor', 'shl', 'lshr', 'icmp', 'select', 'addrspacecast'):
                return self.parse_cexpr(v)
            raise SyntaxError('value? %r' % v)
        if v == '{' or v == '<{':
            close = '}' if v == '{' else '}>'
            return ('agg', self.parse_typed_list(close))
        if v == '[':
            return ('agg', self.parse_typed_list(']'))
        if v == '<':
            return ('agg', self.parse_typed_list('>'))
        raise SyntaxError('value? %r %r' % (k, v))

    def parse_typed_list(self, close):
        out = []
        if self.accept(close):
            return out
        while True:
            t = self.parse_type()
            out.append((t, self.parse_value(t)))
            if self.accept(close):
                break
            self.expect(',')
        return [('tv', t, v) for (t, v) in out]

    def parse_typed_value(self):
        t = self.parse_type()
        self.skip_param_attrs()
        return t, self.parse_value(t)

    def skip_param_attrs(self):
        while True:
            k, v = self.peek()
            if k == 'word' and v in PARAM_ATTRS:
                self.next()
                if self.peek()[1] == '(':
                    depth = 0
                    while True:
                        x = self.next()[1]
                        if x == '(':
                            depth += 1
                        elif x == ')':
                            depth -= 1
                            if depth == 0:
                                break
                elif v in ('align', 'dereferenceable', 'dereferenceable_or_null') and self.peek()[0] == 'num':
                    self.next()
            else:
                return

    def parse_cexpr(self, op):
        if op == 'getelementptr':
            while self.peek()[1] in ('inbounds', 'nuw', 'nusw', 'inrange'):
                self.next()
                if self.peek()[1] == '(' and self.t[self.i - 1][1] == 'inrange':
                    while self.next()[1] != ')':
                        pass
            self.expect('(')
            bt = self.parse_type(); self.expect(',')
            args = [self.parse_typed_value()]
            while self.accept(','):
                args.append(self.parse_typed_value())
            self.expect(')')
            return ('cgep', bt, args)
        if op in ('ptrtoint', 'inttoptr', 'bitcast', 'trunc', 'zext', 'sext', 'addrspacecast'):
            self.expect('(')
            a = self.parse_typed_value(); self.expect('to'); tt = self.parse_type(); self.expect(')')
            return ('ccast', op, a, tt)
        if op in ('add', 'sub', 'mul', 'and', 'or', 'xor', 'shl', 'lshr'):
            while self.peek()[1] in ('nuw', 'nsw', 'exact'):
                self.next()
            self.expect('(')
            a = self.parse_typed_value(); self.expect(','); b = self.parse_typed_value(); self.expect(')')
            return ('cbin', op, a, b)
        raise SyntaxError('cexpr ' + op)


PARAM_ATTRS = {'align', 'noundef', 'nonnull', 'noalias', 'readonly', 'writeonly', 'readnone', 'zeroext', 'signext',
               'inreg', 'byval', 'sret', 'nocapture', 'captures', 'dereferenceable', 'dereferenceable_or_null',
               'returned', 'immarg', 'nofree', 'nest', 'swiftself', 'swifterror', 'dead_on_unwind', 'writable',
               'initializes', 'range', 'nofpclass', 'dead_on_return', 'allocalign', 'allocptr', 'inalloca',
               'preallocated', 'elementtype', 'noext'}


def decode_cstr(s):
    s = s[2:-1]
    out = bytearray()
    i = 0
    while i < len(s):
        c = s[i]
        if c == '\\':
            if s[i + 1] == '\\':
                out.append(92); i += 2
            else:
                out.append(int(s[i + 1:i + 3], 16)); i += 3
        else:
            out.append(ord(c)); i += 1
    return bytes(out)


# ---------------------------------------------------------------- module index
class Func:
    __slots__ = ('name', 'params', 'rettype', 'blocks', 'file', 'dem', 'order', 'nins')


class Module:
    def __init__(self, paths):
        self.tc = TypeCtx()
        self.files = []
        self.fdefs = {}     # (fileidx,name) or name -> (fileidx, line no)
        self.gdefs = {}     # name -> (fileidx, line)
        self.decls = set()
        self.dem = {}       # name -> demangled
        self.funcs = {}
        self.lines = []
        for p in paths:
            self.index_file(p)

    def index_file(self, path):
        fi = len(self.files)
        with open(path, 'r', errors='surrogateescape') as f:
            lines = f.read().split('\n')
        self.files.append(path)
        self.lines.append(lines)
        prev_comment = None
        for ln, line in enumerate(lines):
            if not line:
                continue
            c = line[0]
            if c == ';':
                prev_comment = line
                continue
            if c == 'd':
                if line.startswith('define '):
                    m = re.search(r'@("(?:[^"\\]|\\.)*"|[-a-zA-Z$._0-9]+)\(', line)
                    name = '@' + m.group(1)
                    local = (' internal ' in line[:40] or ' private ' in line[:40])
                    key = (fi, name) if local else name
                    if key not in self.fdefs:
                        self.fdefs[key] = (fi, ln)
                    if local:
                        pass
                    self._dem(name, fi, ln)
                elif line.startswith('declare '):
                    m = re.search(r'@("(?:[^"\\]|\\.)*"|[-a-zA-Z$._0-9]+)\(', line)
                    name = '@' + m.group(1)
                    self.decls.add(name)
                    self._dem(name, fi, ln)
            elif c == '@':
                m = re.match(r'(@(?:"(?:[^"\\]|\\.)*"|[-a-zA-Z$._0-9]+)) = (.*)', line)
                name = m.group(1)
                rest = m.group(2)
                local = rest.startswith('private') or rest.startswith('internal')
                if ' external ' in ' ' + rest[:60] and not (' constant ' in rest[:90] and '=' in rest[20:]) and 'zeroinitializer' not in rest and ' c"' not in rest and '{' not in rest:
                    # external declaration of a global
                    self.gdefs.setdefault(('ext', name), (fi, ln))
                    continue
                key = (fi, name) if local else name
                self.gdefs.setdefault(key, (fi, ln))
            elif c == '%':
                m = re.match(r'(%(?:"(?:[^"\\]|\\.)*"|[-a-zA-Z$._0-9]+)) = type (.*)', line)
                if m and m.group(1) not in self.tc.named:
                    self.tc.named[m.group(1)] = tokenize(m.group(2))

    def _dem(self, name, fi, ln):
        if name in self.dem:
            return
        lines = self.lines[fi]
        j = ln - 1
        # skip "; Function Attrs" lines
        while j >= 0 and lines[j].startswith('; Function Attrs'):
            j -= 1
        if j >= 0 and lines[j].startswith('; ') and not lines[j].startswith('; Function'):
            self.dem[name] = lines[j][2:]

    def demangled(self, name):
        return self.dem.get(name, name)

    def find_func(self, name, fi=None):
        k = (fi, name)
        if k in self.fdefs:
            return k
        if name in self.fdefs:
            return name
        return None

    def get_func(self, key):
        f = self.funcs.get(key)
        if f is None:
            fi, ln = self.fdefs[key]
            f = parse_function(self, fi, ln)
            self.funcs[key] = f
        return f


def parse_function(mod, fi, ln):
    lines = mod.lines[fi]
    tc = mod.tc
    hdr = lines[ln]
    toks = tokenize(hdr)
    p = P(toks, tc)
    # define [linkage/attrs]* rettype @name(params) ...
    p.expect('define')
    while True:
        k, v = p.peek()
        if k == 'word' and v in LINKAGE_WORDS:
            p.next()
            if p.peek()[1] == '(' and v in ('dereferenceable', 'dereferenceable_or_null', 'align', 'range'):
                depth = 0
                while True:
                    x = p.next()[1]
                    if x == '(':
                        depth += 1
                    elif x == ')':
                        depth -= 1
                        if depth == 0:
                            break
            elif v == 'align' and p.peek()[0] == 'num':
                p.next()
        else:
            break
    f = Func()
    f.rettype = p.parse_type()
    name = p.next()[1]
    f.name = name
    f.file = fi
    f.dem = mod.demangled(name)
    p.expect('(')
    params = []
    if not p.accept(')'):
        while True:
            if p.accept('...'):
                p.expect(')')
                break
            t = p.parse_type()
            p.skip_param_attrs()
            k, v = p.peek()
            if k == 'local':
                p.next(); pname = v
            else:
                pname = '%' + str(len(params))
            params.append((t, pname))
            if p.accept(')'):
                break
            p.expect(',')
    f.params = params
    blocks = {}
    order = []
    # implicit numbering of unnamed entry block/values is handled by rustc naming (always named "start")
    cur = None
    curname = None
    i = ln + 1
    nins = 0
    # unnamed temporaries: LLVM numbers them sequentially, including unnamed params & blocks: they appear explicitly as %N
    while True:
        line = lines[i]
        i += 1
        if line == '}':
            break
        if not line or line[0] == ';':
            continue
        s = line.strip()
        if not s or s[0] == ';':
            continue
        if line[0] != ' ':
            # label
            m = re.match(r'("(?:[^"\\]|\\.)*"|[-a-zA-Z$._0-9]+):', line)
            curname = '%' + m.group(1)
            cur = []
            blocks[curname] = cur
            order.append(curname)
            continue
        if s.startswith('#dbg_'):
            continue
        # multi-line switch
        if s.startswith('switch ') and s.endswith('['):
            while True:
                l2 = lines[i].strip()
                i += 1
                s += ' ' + l2
                if l2 == ']':
                    break
        if cur is None:
            curname = '%0'
            cur = []
            blocks[curname] = cur
            order.append(curname)
        cur.append(parse_instr(s, tc))
        nins += 1
    f.blocks = blocks
    f.order = order
    f.nins = nins
    return f


LINKAGE_WORDS = {'internal', 'private', 'hidden', 'protected', 'default', 'dso_local', 'unnamed_addr', 'local_unnamed_addr',
                 'weak', 'weak_odr', 'linkonce', 'linkonce_odr', 'available_externally', 'external', 'common',
                 'fastcc', 'ccc', 'coldcc', 'zeroext', 'signext', 'noundef', 'nonnull', 'noalias', 'align',
                 'dereferenceable', 'dereferenceable_or_null', 'inreg', 'range', 'extern_weak', 'appending',
                 'preserve_mostcc', 'preserve_allcc', 'x86_intrcc', 'nofpclass'}

BINOPS = {'add', 'sub', 'mul', 'udiv', 'sdiv', 'urem', 'srem', 'and', 'or', 'xor', 'shl', 'lshr', 'ashr',
          'fadd', 'fsub', 'fmul', 'fdiv', 'frem'}
CASTS = {'trunc', 'zext', 'sext', 'ptrtoint', 'inttoptr', 'bitcast', 'addrspacecast', 'fptoui', 'fptosi', 'uitofp',
         'sitofp', 'fpext', 'fptrunc'}
FLAGS = {'nuw', 'nsw', 'exact', 'disjoint', 'nneg', 'fast', 'nnan', 'ninf', 'nsz', 'arcp', 'contract', 'afn', 'reassoc',
         'samesign', 'inbounds', 'nusw', 'volatile', 'tail', 'musttail', 'notail'}


def parse_instr(s, tc):
    toks = tokenize(s)
    # strip trailing metadata  ", !dbg !123" etc.
    for j, (k, v) in enumerate(toks):
        if k == 'meta' and j > 0 and toks[j - 1][1] == ',':
            toks = toks[:j - 1]
            break
    p = P(toks, tc)
    dst = None
    if p.peek()[0] == 'local' and p.peek(1)[1] == '=':
        dst = p.next()[1]
        p.next()
    op = p.next()[1]
    while op in FLAGS:
        op = p.next()[1]

    def flags():
        while p.peek()[1] in FLAGS:
            p.next()

    if op in BINOPS:
        flags()
        t = p.parse_type(); a = p.parse_value(t); p.expect(','); b = p.parse_value(t)
        return ('bin', dst, op, t, a, b)
    if op == 'icmp':
        flags()
        pred = p.next()[1]
        t = p.parse_type(); a = p.parse_value(t); p.expect(','); b = p.parse_value(t)
        return ('icmp', dst, pred, t, a, b)
    if op == 'fcmp':
        flags()
        pred = p.next()[1]
        t = p.parse_type(); a = p.parse_value(t); p.expect(','); b = p.parse_value(t)
        return ('fcmp', dst, pred, t, a, b)
    if op in CASTS:
        flags()
        t = p.parse_type(); a = p.parse_value(t); p.expect('to'); tt = p.parse_type()
        return ('cast', dst, op, t, a, tt)
    if op == 'load':
        flags()
        if p.peek()[1] == 'atomic':
            p.next(); flags()
        t = p.parse_type(); p.expect(',')
        pt = p.parse_type(); a = p.parse_value(pt)
        return ('load', dst, t, a)
    if op == 'store':
        flags()
        if p.peek()[1] == 'atomic':
            p.next(); flags()
        t = p.parse_type(); v = p.parse_value(t); p.expect(',')
        pt = p.parse_type(); a = p.parse_value(pt)
        return ('store', None, t, v, a)
    if op == 'alloca':
        flags()
        t = p.parse_type()
        n = ('c', 1)
        align = 1
        while p.accept(','):
            if p.peek()[1] == 'align':
                p.next(); align = int(p.next()[1])
            else:
                nt = p.parse_type(); n = p.parse_value(nt)
        return ('alloca', dst, t, n, align)
    if op == 'getelementptr':
        flags()
        bt = p.parse_type(); p.expect(',')
        pt = p.parse_type(); base = p.parse_value(pt)
        idx = []
        while p.accept(','):
            it = p.parse_type(); idx.append((it, p.parse_value(it)))
        return ('gep', dst, bt, base, idx)
    if op == 'br':
        if p.peek()[1] == 'label':
            p.next(); return ('jmp', None, p.next()[1])
        t = p.parse_type(); c = p.parse_value(t); p.expect(','); p.expect('label'); a = p.next()[1]
        p.expect(','); p.expect('label'); b = p.next()[1]
        return ('br', None, c, a, b)
    if op == 'switch':
        t = p.parse_type(); v = p.parse_value(t); p.expect(','); p.expect('label'); dflt = p.next()[1]
        p.expect('[')
        cases = []
        while not p.accept(']'):
            ct = p.parse_type(); cv = p.parse_value(ct); p.expect(','); p.expect('label'); cases.append((cv[1], p.next()[1]))
        return ('switch', None, t, v, dflt, cases)
    if op == 'ret':
        t = p.parse_type()
        if t == VOID:
            return ('ret', None, t, None)
        return ('ret', None, t, p.parse_value(t))
    if op == 'unreachable':
        return ('unreachable', None)
    if op == 'call':
        flags()
        while p.peek()[0] == 'word' and p.peek()[1] in LINKAGE_WORDS:
            w = p.next()[1]
            if p.peek()[1] == '(':
                depth = 0
                while True:
                    x = p.next()[1]
                    if x == '(':
                        depth += 1
                    elif x == ')':
                        depth -= 1
                        if depth == 0:
                            break
            elif w == 'align' and p.peek()[0] == 'num':
                p.next()
        rt = p.parse_type()
        # optional function type "(...)" for varargs
        if p.peek()[1] == '(':
            depth = 0
            while True:
                x = p.next()[1]
                if x == '(':
                    depth += 1
                elif x == ')':
                    depth -= 1
                    if depth == 0:
                        break
        callee = p.parse_value(PTR)
        p.expect('(')
        args = []
        if not p.accept(')'):
            while True:
                t = p.parse_type()
                if t == ('meta',):
                    # metadata argument: skip to , or )
                    depth = 0
                    while True:
                        x = p.peek()[1]
                        if depth == 0 and x in (',', ')'):
                            break
                        if x == '(':
                            depth += 1
                        elif x == ')':
                            depth -= 1
                        p.next()
                    args.append((t, ('undef',)))
                else:
                    p.skip_param_attrs()
                    args.append((t, p.parse_value(t)))
                if p.accept(')'):
                    break
                p.expect(',')
        return ('call', dst, rt, callee, args)
    if op == 'extractvalue':
        t = p.parse_type(); a = p.parse_value(t)
        idx = []
        while p.accept(','):
            idx.append(int(p.next()[1]))
        return ('extractvalue', dst, t, a, idx)
    if op == 'insertvalue':
        t = p.parse_type(); a = p.parse_value(t); p.expect(',')
        et = p.parse_type(); e = p.parse_value(et)
        idx = []
        while p.accept(','):
            idx.append(int(p.next()[1]))
        return ('insertvalue', dst, t, a, et, e, idx)
    if op == 'select':
        flags()
        ct = p.parse_type(); c = p.parse_value(ct); p.expect(',')
        t = p.parse_type(); a = p.parse_value(t); p.expect(',')
        t2 = p.parse_type(); b = p.parse_value(t2)
        return ('select', dst, ct, c, t, a, b)
    if op == 'phi':
        flags()
        t = p.parse_type()
        inc = []
        while True:
            p.expect('['); v = p.parse_value(t); p.expect(','); lbl = p.next()[1]; p.expect(']')
            inc.append((v, lbl))
            if not p.accept(','):
                break
        return ('phi', dst, t, inc)
    if op == 'extractelement':
        t = p.parse_type(); a = p.parse_value(t); p.expect(','); it = p.parse_type(); i = p.parse_value(it)
        return ('extractelement', dst, t, a, i)
    if op == 'insertelement':
        t = p.parse_type(); a = p.parse_value(t); p.expect(','); et = p.parse_type(); e = p.parse_value(et)
        p.expect(','); it = p.parse_type(); i = p.parse_value(it)
        return ('insertelement', dst, t, a, e, i)
    if op == 'shufflevector':
        t = p.parse_type(); a = p.parse_value(t); p.expect(','); t2 = p.parse_type(); b = p.parse_value(t2)
        p.expect(','); mt = p.parse_type(); m = p.parse_value(mt)
        return ('shufflevector', dst, t, a, b, mt, m)
    if op == 'cmpxchg':
        flags()
        if p.peek()[1] == 'weak':
            p.next()
        flags()
        pt = p.parse_type(); a = p.parse_value(pt); p.expect(',')
        t = p.parse_type(); e = p.parse_value(t); p.expect(',')
        t2 = p.parse_type(); n = p.parse_value(t2)
        return ('cmpxchg', dst, t, a, e, n)
    if op == 'atomicrmw':
        flags()
        rop = p.next()[1]
        pt = p.parse_type(); a = p.parse_value(pt); p.expect(',')
        t = p.parse_type(); v = p.parse_value(t)
        return ('atomicrmw', dst, rop, t, a, v)
    if op == 'fence':
        return ('nop', None)
    if op == 'fneg':
        flags()
        t = p.parse_type(); a = p.parse_value(t)
        return ('fneg', dst, t, a)
    if op == 'freeze':
        t = p.parse_type(); a = p.parse_value(t)
        return ('freeze', dst, t, a)
    raise SyntaxError('instr? ' + s)
