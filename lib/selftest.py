"""engine self-test: a harness with a known violation must be found and a vacuous `check(false)` twin must fail"""
import os, sys, tempfile, shutil
HERE = os.path.dirname(os.path.abspath(__file__))
sys.path.insert(0, HERE)
import build, engine, check

out = tempfile.mkdtemp(prefix='verif-selftest-')
try:
    lls = build.build_ir('dev', out)
    engine.load_module(check.ll_filter(lls))
    r = engine.run_instance({'harness': 'vh_selftest_ok', 'params': [3]})
    assert r['status'] == 'complete' and not r['violations'] and r['covers'], r
    r = engine.run_instance({'harness': 'vh_selftest_bad', 'params': [3]})
    assert r['status'] == 'complete' and any(v['kind'] == 'assert' and v['id'] == 2 for v in r['violations']), r
    assert any(v['kind'] == 'panic' for v in r['violations']), r
    print('selftest ok')
finally:
    shutil.rmtree(out, ignore_errors=True)
