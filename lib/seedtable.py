"""prints the markdown table of confirmed seeded changes and which checks catch them (from seeded/*/meta.json)"""
import glob, json, os, re
VERIF = os.path.dirname(os.path.dirname(os.path.abspath(__file__)))
SUMMARY = {
 'C01-1': 'right_mul_is_exact side-condition c*(b-a+1)>=a: (R^[4,5])^[2,3] flattened to R^[8,15]; needs nested loop with outer start >= 2 and a string of length 11',
 'C01-2': 'sub_language (Complement,Complement) operands swapped: union(comp(a), comp([a-z])) loses "b"',
 'C02-1': 'compile_with_bound skips the explicit edge when a class derivative is empty: complement(a.Sigma*) DFA accepts "a"',
 'C02-2': 'empty_complement off by one at MAX_CHAR: range(0,MAX-1) DFA accepts U+2FFFF / next panics',
 'C03-1': 'merge_partitions loop bound < MAX_CHAR drops the last piece [x,MAX]: wrong derivative class for ranges reaching MAX',
 'C03-2': 'empty_complement off by one: Complement class {MAX} rejected with BadClassId, char_derivative panics',
 'C04-1': 'Hopcroft has_active_splitter resumes scan after current block: 4-state cycle merged wrongly',
 'C04-2': 'Hopcroft update after refinement activates only the smaller half when the old splitter is pending: needs 4 states x 3 letters',
 'C05-1': 'is_empty_re syntactic shortcut for Concat/Loop: concat(inter(disjoint),x) reported non-empty',
 'C05-2': 'get_string singleton fast path mis-handles powers of multi-character words: (ab)^2 gives ""',
 'C06-1': 'naive_search advances by max(j,1) after a partial match: "aab" in "aaab" not found',
 'C06-2': 'str_indexof guard i >= len (re-introduces the repaired defect)',
 'C07-1': 'diff builds Complement via make(): wrong for odd-id second operand (complement of complement), depends on id order',
 'C07-2': 'cached_deriv also caches derivative of complement(e) via make(): wrong when derivative has odd id; depends on cache order',
 'C08-1': 'flush_pending keeps stale escape_code: \\u1\\u{2} decodes to 0x12',
 'C08-2': 'Display uses <= 0x10000: U+10000 printed as \\u10000 (5 hex digits)',
 'C09-1': 'str_to_int multiplication unchecked: wraps in release profile only',
 'C09-2': 'str_from_code x < MAX_CHAR: from_code(0x2FFFF) empty',
 'C10-1': 'naive_re_search restarts at max(i+1,j): match starting inside a failed partial match missed ("aab" in "aaab")',
 'C10-2': 'guard k >= len before the empty-match shortcut: replace_re("", nullable, t) returns ""',
 'C11-1': 'try_from_iter witness update c.start < comp_witness: stale witness for adjacent intervals from 0',
 'C11-2': 'interval_cover gap branch b <= next_ai: [gap..first char of next] reported DisjointFromAll',
 'C12-1': 'merge loop guard on starts < MAX_CHAR: final singleton [MAX,MAX] dropped',
 'C12-2': 'merge fast path bulk-copies remaining intervals without updating comp_witness',
 'C13-1': 'build removes transitions to the declared default before validation: conflict with an overlapping label undetected',
 'C13-2': 'try_from_iter witness update only for adjacent intervals: gap + tail reaching MAX reports empty complement',
 'C14-1': 'remove_unreachable_states no longer remaps initial_state (only minimize does): minimize then prune breaks',
 'C14-2': 'compile_successors drops entries of the last alphabet representative when the combined partition has no complement',
 'C15-1': 'right_mul_is_exact shortcut other.start >= self.start: wrong for point self >= 2',
 'C15-2': 'includes via end-point comparison with u32::MAX as infinity: finite(0,MAX) includes star',
 'C16-1': 'is_full tests is_infinite instead of is_all: Sigma+ treated as Sigma* by flexible_match',
 'C16-2': 'concat_inclusion does not advance u after a rigid prefix: later rigid parts match inside the prefix',
 'C17-1': 'From<Vec<u32>> fast path uses an 18-bit check: 0x30000..0x3FFFF kept raw',
 'C17-2': 'parser AfterSlashUHex stores the interrupting character in pending (raw copy bypasses replacement)',
 'C18-1': 'empty_complement off by one: start_class(Complement) BadClassId for [0,MAX-1]',
 'C18-3': 'start_char complement/inter case uses syntactic d.is_empty() (seed C18-2 re-based by hand onto the start_char fix)',
 'C19-1': 'DerivativeIterator expands only nodes with interval classes: closure of eps / Sigma misses the sink',
 'C19-2': 'compile_with_bound bound check off by one on the complement-class branch',
 'C20-1': 'CharSet::union uses other.end for nested intervals',
 'C20-2': 'PartialOrd Greater uses >=: intervals sharing one character ordered',
 'C04-3': 'reverse of the repair d2e3fda (take_list indexes directly): minimize panics on 5-state 1-letter DFA (written by the author to show the quick tier guards the repaired defect)',
 'C01-r2-1': 'flexible_match accepts an empty leftover for any loops: union(a, a(b+)) loses "a"',
 'C01-r2-2': 'is_nullable(Loop) = range.contains(0): (a*+b)+ not nullable (nullable body ignored)',
 'C02-r2-1': 'is_nullable(Loop) ignores a nullable body: (a*b*)+ DFA rejects ""',
 'C02-r2-2': 'sub_language complement/complement operands swapped (appears during DFA translation of unions of complements)',
 'C03-r2-1': 'sub_language complement swap: derivative of not([a-b]x)+not([b-c][x-z]) by b collapses wrongly',
 'C03-r2-2': 'class_of_set from end points only: set with both ends in the complementary class spanning whole classes gives Ok',
 'C04-r2-1': 'has_active_splitter resumes scan after the current block (refinement stops early)',
 'C04-r2-2': 'minimize returns immediately when there is no final state (equivalent states left unmerged)',
 'C05-r2-1': 'get_string singleton fast path via collect_chars: (ab)^3 gives ""',
 'C05-r2-2': 'sub_language complement swap: inter(union(not a, not [a-z]), "b") reported empty',
 'C07-r2-1': 'simplify_set_operation complement-pair test by node kind instead of id parity: inter(Sigma+, X) empty when X is the first term created',
 'C07-r2-2': 'diff builds Complement through make(): wrong for odd-id operand',
 'C10-r2-1': 'naive_re_search resumes at j after a failed partial match',
 'C10-r2-2': 'sub_language complement swap seen through replace_re on a union of complements',
 'C12-r2-1': 'merge fast path appends the tail without updating the complement witness',
 'C12-r2-2': 'merge_partition_list skips a partition whose interval ends align with the result (gaps ignored)',
 'C13-r2-1': 'build reuses the pre-cleanup partition for states with a declared default: wrong successor',
 'C13-r2-2': 'add_transition drops a transition with an identical label (different target): conflict accepted',
 'C14-r2-1': 'remove_unreachable_states does not follow the default edge of states without explicit transitions',
 'C14-r2-2': 'compile_successors shortcut assumes class indices line up when class counts are equal',
 'C16-r2-1': 'flexible_match accepts a Sigma^[k,inf) gap when the region has >= k elements, even nullable ones: a.b*.c <= a.Sigma+.c',
 'C16-r2-2': 'sub_language complement swap: not(a) <= not([a-z]) claimed',
 'C06-r2-1': 'str_replace_all fast path for |p| = |r| rescans replaced text: replace_all("aaa","aa","ba") = "bba"',
 'C06-r2-2': 'str_substr clips the window to [0,len): negative start with i+n > 0 returns a prefix',
 'C08-r2-1': 'close_escape_seq re-scans a decoded backslash: \\u{5c}u0041 parses to "A"',
 'C08-r2-2': 'AfterSlashUHex failure branch pushes instead of consuming: no restart of an escape after \\u00',
 'C09-r2-1': 'lexicographic comparison by blocks of 8 with a wrong tail bound: order wrong for common prefixes >= 8',
 'C09-r2-2': 'char_is_digit via truncating cast to u8: U+0131 counted as digit',
 'C11-r2-1': 'good_char_set decided from the classes of the two end points',
 'C11-r2-2': 'try_from_iter disjointness via partial_cmp: identical sets accepted',
 'C15-r2-1': 'right_mul_is_exact via integer division c >= (a-1)/(b-a): rounds down',
 'C15-r2-2': 'scale fast path returns self for [a<=1, inf): plus.scale(2) = plus',
 'C17-r2-1': 'flush_pending keeps escape_code: abandoned escape followed by \\uXXXX yields 0x12FFFF',
 'C17-r2-2': 'From<&str> fast path guarded by average UTF-8 length: "a"+U+30000 kept raw',
 'C18-r2-1': 'start_char Concat with nullable left operand ignores emptiness of the right operand',
 'C18-r2-2': 'is_nullable(Loop) ignores a nullable body: start_char((eps+a)^2.b, b) false',
 'C20-r2-1': 'inter_list early exit on a singleton intermediate result',
 'C20-r2-2': 'union adjacency test with a stray -1 in the reverse order: gap of one character merged',
 'C19-r2-1': 'DerivativeIterator expands only nodes with interval classes',
 'C19-r2-2': 'compile_with_bound counts on discovery with a sink fast path before the bound check: try_compile(Sigma^3, 4) returns 5 states',
}
rows = []
for d in sorted(glob.glob(os.path.join(VERIF, 'seeded', '*'))):
    mf = os.path.join(d, 'meta.json')
    if not os.path.exists(mf):
        continue
    m = json.load(open(mf))
    name = os.path.basename(d)
    patch = open(os.path.join(d, 'patch.diff')).read()
    files = sorted(set(re.findall(r'^\+\+\+ b/(\S+)', patch, re.M)))
    caught = m.get('detected_by') or []
    ran = ', '.join('%s:%s' % (c, 'VIOLATION' if c in caught else ('exit %s' % v['exit'])) for c, v in m.get('checks', {}).items())
    what = SUMMARY.get(name, '')
    rows.append('| %s | %s | %s | %s | %s |' % (name, ', '.join(files), what, ', '.join(caught) if caught else '**missed by quick tier**', ran))
print('| seed | file | what it breaks / what it needs | caught by (quick) | checks run |')
print('|---|---|---|---|---|')
print('\n'.join(rows))
