"""Per-property instance generators: which harness instances (harness symbol + concrete size/shape
parameters) make up the quick and the thorough tier of each property."""
import random
import shapes as S


def J(harness, params, label, profile='dev', cost=1, **limits):
    j = {'harness': harness, 'params': list(params), 'label': label, 'profile': profile, 'cost': cost}
    if limits:
        j['limits'] = limits
    return j


def c11(tier, seed):
    jobs = []
    nmax = 3 if tier == 'quick' else 4
    rnd = random.Random(seed)
    for n in range(0, nmax + 1):
        for group in (0, 1, 2):
            # construction by push
            jobs.append(J('vh_c11_queries', [n, 0, 0, group], 'n=%d push group=%d' % (n, group), cost=2 ** n))
            if n == 1:
                jobs.append(J('vh_c11_queries', [n, 2, 0, group], 'n=1 from_set group=%d' % group))
            if n >= 1:
                nperm = {1: 1, 2: 2, 3: 6, 4: 24}[n]
                perms = list(range(nperm))
                if tier == 'quick' and n >= 3:
                    perms = sorted(set([0, nperm - 1, rnd.randrange(nperm)]))
                elif n == 4:
                    perms = sorted(set([0, 23] + [rnd.randrange(24) for _ in range(6)]))
                for pk in perms:
                    for mode in (1, 3):
                        jobs.append(J('vh_c11_queries', [n, mode, pk, group],
                                      'n=%d %s perm=%d group=%d' % (n, 'try_from_iter' if mode == 1 else 'try_from_list', pk, group),
                                      cost=2 ** n))
    for n in range(0, nmax + 1):
        for api in (1, 3):
            jobs.append(J('vh_c11_try_from', [n, api], 'try_from n=%d api=%d arbitrary overlapping inputs' % (n, api), cost=4 ** n))
    return {
        'jobs': jobs,
        'bounds': 'partitions of 0..%d intervals, every end point symbolic over [0,0x2FFFF] (adjacent, touching 0/MAX, full, empty inside '
                  'the space); query char / query set [a,b] / class index symbolic (full range); construction by push, from_set, '
                  'try_from_iter/try_from_list over permutations; try_from_* on arbitrary (overlapping, unordered) symbolic inputs' % nmax,
        'outside': ['partitions with more than %d intervals' % nmax],
    }


def c20(tier, seed):
    jobs = [J('vh_c20_charset', [g, 0], 'group=%d' % g) for g in (0, 1, 2)]
    kmax = 3 if tier == 'quick' else 4
    jobs += [J('vh_c20_charset', [3, k], 'inter_list k=%d' % k, cost=k + 1) for k in range(0, kmax + 1)]
    return {'jobs': jobs,
            'bounds': 'two symbolic intervals a<=b<=0x2FFFF, c<=d<=0x2FFFF and a symbolic u32 x (full 32-bit range); inter_list over 0..%d symbolic intervals' % kmax,
            'outside': ['inter_list on more than %d sets' % kmax]}


def c12(tier, seed):
    jobs = []
    nm = 2 if tier == 'quick' else 3
    for n in range(0, nm + 1):
        for m in range(0, nm + 1):
            jobs.append(J('vh_c12_merge', [n, m], 'merge %dx%d' % (n, m), cost=10 ** (n + m)))
    if tier == 'thorough':
        jobs += [J('vh_c12_merge', [4, 1], 'merge 4x1', cost=10 ** 5), J('vh_c12_merge', [1, 4], 'merge 1x4', cost=10 ** 5)]
    laws = [(0, 0, 0), (1, 0, 0), (1, 1, 0), (1, 1, 1), (2, 1, 0)] if tier == 'quick' else \
        [(0, 0, 0), (1, 0, 0), (1, 1, 0), (1, 1, 1), (2, 0, 0), (2, 1, 0), (2, 1, 1), (2, 2, 0)]
    for (a, b, c) in laws:
        jobs.append(J('vh_c12_laws', [a, b, c], 'laws %d,%d,%d' % (a, b, c), cost=30 ** (a + b + c)))
    return {'jobs': jobs,
            'bounds': 'merge_partitions on n x m intervals, n,m <= %d, all end points symbolic over [0,0x2FFFF]; characters x,y,z symbolic; '
                      'merge_partition_list over 3 partitions (sizes %s) under all 6 orders' % (nm, laws),
            'outside': ['partitions with more intervals', 'lists longer than 3'],
            'assumptions': ['C12 is checked in the reading given in DESIGN.md 4.C12: refinement + maximality on adjacent characters + '
                            'complement = intersection of complements with least witness (the literal all-pairs reading is unsatisfiable for interval lists)']}


def c15(tier, seed):
    jobs = []
    for ri in (0, 1):
        for si in (0, 1):
            for g in (0, 1, 2, 3):
                jobs.append(J('vh_c15_basic', [ri, si, g], 'basic r=%s s=%s group=%d' % ('inf' if ri else 'fin', 'inf' if si else 'fin', g)))
    ks = list(range(0, 13)) + [100, 65535, 2 ** 31 - 1, 2 ** 32 - 2] if tier == 'quick' else list(range(0, 65)) + [100, 1000, 65535, 65536, 2 ** 31 - 1, 2 ** 31, 2 ** 32 - 2]
    for ri in (0, 1):
        for k in ks:
            jobs.append(J('vh_c15_scale', [ri, 0, k], 'scale r=%s k=%d full-width parameters' % ('inf' if ri else 'fin', k), cost=5))
        jobs.append(J('vh_c15_scale', [ri, 1, 7, 15], 'scale r=%s symbolic k<=7, parameters <= 15' % ('inf' if ri else 'fin'), cost=50))
        jobs.append(J('vh_c15_scale_overflow', [ri], 'scale overflow panics r=%s' % ('inf' if ri else 'fin'), cost=20))
    b = 6 if tier == 'quick' else 12
    for ri in (0, 1):
        for si in (0, 1):
            jobs.append(J('vh_c15_mul', [ri, si, b], 'mul/right_mul_is_exact r=%s s=%s parameters <= %d' % ('inf' if ri else 'fin', 'inf' if si else 'fin', b), cost=100))
    return {'jobs': jobs,
            'bounds': 'contains/includes/add/shift: all parameters and members symbolic over the full u32 range; scale: concrete k in %s with full-width symbolic parameters, '
                      'and symbolic k <= 7 with parameters <= 15; mul and right_mul_is_exact: parameters <= %d, members <= %d, x <= %d '
                      '(symbolic x symbolic multiplication is bounded in width, not decided at 32 bits)' % (ks, b, 2 * b, b * b + 2 * b + 2),
            'outside': ['mul / right_mul_is_exact with parameters above %d' % b, 'scale factors k outside the listed set when parameters exceed 15']}


def c06(tier, seed):
    jobs = []
    smax, tmax, rmax = (3, 2, 1) if tier == 'quick' else (4, 3, 2)
    for n in range(0, smax + 1):
        for m in range(0, tmax + 1):
            jobs.append(J('vh_c06_strings', [n, m, 0, 0], 'concat/len/at/prefixof/suffixof/contains |s|=%d |t|=%d' % (n, m), cost=3 ** (n + m)))
            jobs.append(J('vh_c06_strings', [n, m, 0, 2], 'indexof |s|=%d |t|=%d' % (n, m), cost=3 ** (n + m)))
            for l in range(0, rmax + 1):
                jobs.append(J('vh_c06_strings', [n, m, l, 3], 'replace |s|=%d |p|=%d |r|=%d' % (n, m, l), cost=3 ** (n + m)))
                jobs.append(J('vh_c06_strings', [n, m, l, 4], 'replace_all |s|=%d |p|=%d |r|=%d' % (n, m, l), cost=4 ** (n + m)))
        jobs.append(J('vh_c06_strings', [n, 0, 0, 1], 'substr |s|=%d' % n, cost=3 ** n))
    # pattern and replacement of equal length >= 2 (in-place replacement strategies)
    for n, m in ([(3, 2), (4, 2)] if tier == 'quick' else [(3, 2), (4, 2), (5, 2), (5, 3)]):
        jobs.append(J('vh_c06_strings', [n, m, m, 3], 'replace |s|=%d |p|=|r|=%d' % (n, m), cost=3 ** (n + m)))
        jobs.append(J('vh_c06_strings', [n, m, m, 4], 'replace_all |s|=%d |p|=|r|=%d' % (n, m), cost=4 ** (n + m)))
    # longer subject / pattern combinations for the search loop (self-overlapping patterns need |p| >= 3, |s| >= 4)
    extra = [(4, 3), (4, 2), (5, 3)] if tier == 'quick' else [(5, 3), (5, 4), (6, 3)]
    for n, m in extra:
        jobs.append(J('vh_c06_strings', [n, m, 0, 0], 'contains etc. |s|=%d |t|=%d' % (n, m), cost=3 ** (n + m)))
        jobs.append(J('vh_c06_strings', [n, m, 0, 2], 'indexof |s|=%d |t|=%d' % (n, m), cost=3 ** (n + m)))
        jobs.append(J('vh_c06_strings', [n, m, 1, 3], 'replace |s|=%d |p|=%d |r|=1' % (n, m), cost=3 ** (n + m)))
        jobs.append(J('vh_c06_strings', [n, m, 1, 4], 'replace_all |s|=%d |p|=%d |r|=1' % (n, m), cost=4 ** (n + m)))
    return {'jobs': jobs,
            'bounds': ('|s| <= %d, |pattern| <= %d, |replacement| <= %d (every length combination) plus (|s|,|p|) in EXTRA; every character symbolic over [0,0x2FFFF]; '
                       'index and length arguments symbolic over the full i32 range' % (smax, tmax, rmax)).replace('EXTRA', str(extra)),
            'outside': ['longer strings']}


def c09(tier, seed):
    jobs = []
    L = 2 if tier == 'quick' else 3
    for a in range(0, L + 1):
        for b in range(0, L + 1):
            for c in range(0, L + 1):
                jobs.append(J('vh_c09_order', [a, b, c], 'order |a|=%d |b|=%d |c|=%d' % (a, b, c), cost=2 ** (a + b + c)))
    # long common prefixes (block-wise comparison loops): two strings, third empty
    for a, b in ([(9, 9), (8, 10), (17, 17)] if tier == 'quick' else [(9, 9), (8, 10), (16, 16), (17, 17), (25, 24)]):
        jobs.append(J('vh_c09_order', [a, b, 0], 'order |a|=%d |b|=%d |c|=0 (long common prefixes)' % (a, b), cost=a * b))
    for prof in ('dev', 'rel'):
        for n in range(0, 12):
            jobs.append(J('vh_c09_to_int', [n], 'to_int length %d (%s profile)' % (n, prof), profile=prof, cost=2 ** n))
        for n in range(0, 3):
            jobs.append(J('vh_c09_code', [n], 'to_code/from_code/is_digit |s|=%d (%s)' % (n, prof), profile=prof))
        if tier == 'quick':
            jobs.append(J('vh_c09_from_int', [0, (-2 ** 31) & 0xffffffff, 99999], 'from_int n in [-2^31, 10^5) (%s)' % prof, profile=prof, cost=500))
        else:
            jobs.append(J('vh_c09_from_int', [0, (-2 ** 31) & 0xffffffff, 9], 'from_int n in [-2^31, 10) (%s)' % prof, profile=prof, cost=100))
            for k in range(2, 7):
                jobs.append(J('vh_c09_from_int', [0, 10 ** (k - 1), 10 ** k - 1], 'from_int n with %d digits (%s)' % (k, prof), profile=prof, cost=500 * k))
    return {'jobs': jobs,
            'bounds': 'order: three strings of lengths 0..%d, symbolic characters; str_to_int: every length 0..11, symbolic characters, in BOTH '
                      'build configurations (dev: overflow-checks on, rel: off); from_int: %s; codes: full i32 / alphabet' % (
                          L, 'n in [-2^31, 10^5)' if tier == 'quick' else 'n in [-2^31, 10^6) split by digit count (7-10 digit values did not finish in the solver cap and are outside the claim)'),
            'outside': ['strings longer than 11 for str_to_int (they all overflow)', 'order on longer strings']}


def c17(tier, seed):
    jobs = [J('vh_c17_constructors', [g], 'group %d' % g) for g in range(0, 13)]
    # the parser must produce only SMT-LIB characters also when escape attempts follow each other (the C08 parse harness
    # asserts is_good() on its result; the templates below are shared with C08)
    B, U, LB, RB = 92, 117, 123, 125
    for name, t in [('\\u12 \\u 4 symbolic', [B, U, 49, 50, B, U, 0, 0, 0, 0]), ('\\u{ 2 symbolic \\u 3 symbolic f', [B, U, LB, 0, 0, B, U, 0, 0, 0, 102]),
                    ('\\u{2 + 4 symbolic + }', [B, U, LB, 50, 0, 0, 0, 0, RB])]:
        jobs.append(J('vh_c08_parse', [len(t)] + t, 'parse template ' + name, cost=6 ** sum(1 for x in t if x == 0)))
    return {'jobs': jobs,
            'bounds': 'From<u32>/From<&[u32]>/From<Vec<u32>>/From<&[u32;3]> on symbolic u32 (full range); From<char>/From<&str>/From<String>/'
                      'parse_smt_literal (plain text and after each unfinished escape prefix \\, \\u, \\u1, \\u12, \\u123, \\u{, \\u{1, \\u{12345) on a symbolic Rust char over all scalar values (U+0000..U+10FFFF without surrogates); is_good of '
                      'every result is additionally asserted in the C05/C06/C08/C10 harnesses',
            'outside': ['strings with more than 3 characters built through the conversions']}


def c08(tier, seed):
    jobs = []
    L = 4 if tier == 'quick' else 5
    for n in range(0, L + 1):
        jobs.append(J('vh_c08_parse', [n] + [0] * n, 'parse: %d symbolic ASCII bytes' % n, cost=6 ** n))
    B, U, LB, RB = 92, 117, 123, 125
    templates = [
        ('\\u{ + 3 symbolic + }', [B, U, LB, 0, 0, 0, RB]),
        ('\\u{ + 2 symbolic + } + 1 symbolic', [B, U, LB, 0, 0, RB, 0]),
        ('\\u + 4 symbolic', [B, U, 0, 0, 0, 0]),
        ('\\u{2 + 4 symbolic + }', [B, U, LB, 50, 0, 0, 0, 0, RB]),
        ('\\u{ + hex a + 3 symbolic + 2 more hex + } (overlong)', [B, U, LB, 97, 0, 0, 0, 49, 50, RB]),
        ('1 symbolic + \\u{41} + 1 symbolic', [0, B, U, LB, 52, 49, RB, 0]),
        ('\\u{ \\u{ 2 symbolic }', [B, U, LB, B, U, LB, 0, 0, RB]),
        ('\\u12 \\u 4 symbolic', [B, U, 49, 50, B, U, 0, 0, 0, 0]),
    ]
    if tier == 'thorough':
        templates += [
            ('\\u{ + 5 symbolic + }', [B, U, LB, 0, 0, 0, 0, 0, RB]),
            ('\\u{ + 4 symbolic + 2 symbolic', [B, U, LB, 0, 0, 0, 0, 0, 0]),
            ('2 symbolic + u{ + 2 symbolic + }', [0, 0, U, LB, 0, 0, RB]),
        ]
    for name, t in templates:
        jobs.append(J('vh_c08_parse', [len(t)] + t, 'parse template ' + name, cost=6 ** sum(1 for x in t if x == 0)))
    P = 2 if tier == 'quick' else 3
    for n in range(0, P + 1):
        jobs.append(J('vh_c08_print', [n] + [0] * n, 'print: %d symbolic code points' % n, cost=20 ** n))
    ch = lambda c: ord(c) + 1
    ptemplates = [
        ('X u { 4 1 }', [0, ch('u'), ch('{'), ch('4'), ch('1'), ch('}')]),
        ('X u 0 0 4 1', [0, ch('u'), ch('0'), ch('0'), ch('4'), ch('1')]),
        ('\\ X { 4 1 }', [ch('\\'), 0, ch('{'), ch('4'), ch('1'), ch('}')]),
        ('" X "', [ch('"'), 0, ch('"')]),
        ('X Y { 4 }', [0, 0, ch('{'), ch('4'), ch('}')]),
    ]
    for name, t in ptemplates:
        jobs.append(J('vh_c08_print', [len(t)] + t, 'print template ' + name, cost=20 ** sum(1 for x in t if x == 0)))
    return {'jobs': jobs,
            'bounds': 'parser: all texts of 0..%d symbolic ASCII bytes, plus escape templates with symbolic positions (see labels); printer: all '
                      'strings of 0..%d symbolic code points over [0,0x2FFFF] through core::fmt, plus templates that spell escapes with 1-2 symbolic positions' % (L, P),
            'outside': ['longer fully symbolic texts', 'non-ASCII literal text (covered for single characters by C17)']}


def built_shapes(tier):
    sh = [(1, [0]), (1, [1]), (1, [2]), (2, [0, 0]), (2, [1, 0]), (2, [0, 1])]
    if tier == 'thorough':
        sh += [(1, [3]), (2, [1, 1]), (2, [2, 0]), (3, [0, 0, 0]), (3, [1, 0, 0])]
    return sh


def built_jobs(tier, whats):
    jobs = []
    L = 1
    names = {0: 'structure', 1: 'remove_unreachable', 2: 'minimize', 3: 'prune+minimize', 4: 'minimize+prune', 5: 'char_set_next/str_next'}
    if 0 in whats:
        jobs.append(J('vh_c14_built', [2, 1, 1, 0, 0, 0, 0, 1], 'built automaton structure: 2 states whose labels [0,x] and [x+1,MAX] jointly tile the alphabet', cost=500))
    if 4 in whats:
        jobs.append(J('vh_c14_built', [3, 0, 0, 0, 0, L, 4, 0], 'built automaton minimize+prune: 3 states with default successors only', cost=500))
    for n, kk in built_shapes(tier):
        k4 = (kk + [0, 0, 0, 0])[:4]
        for what in whats:
            jobs.append(J('vh_c14_built', [n] + k4 + [L if what else 0, what, 0],
                          'built automaton %s: %d states, transitions per state %s, |w|=%d' % (names[what], n, kk, L if what else 0),
                          cost=(3 ** sum(kk)) * (n ** (sum(kk) + n))))
    return jobs


def c13(tier, seed):
    jobs = []
    anys = [[1], [2], [1, 1], [2, 0], [0, 2]] if tier == 'quick' else [[1], [2], [3], [1, 1], [2, 0], [0, 2], [2, 1], [2, 2], [1, 1, 1], [2, 0, 0]]
    for kk in anys:
        n = len(kk)
        jobs.append(J('vh_c13_any', [n] + (kk + [0, 0, 0, 0])[:4], 'arbitrary spec: %d states, transitions per state %s (labels may overlap, defaults optional)' % (n, kk), cost=10 ** sum(kk) * 3 ** n))
    for n, kk in built_shapes(tier):
        k4 = (kk + [0, 0, 0, 0])[:4]
        jobs.append(J('vh_c13_complete', [n] + k4, 'complete spec: %d states, transitions per state %s' % (n, kk), cost=3 ** sum(kk)))
    return {'jobs': jobs,
            'bounds': 'AutomatonBuilder<u32>; arbitrary call sequences with transitions per state in %s: every label end point, target, default '
                      'flag/target and final mark symbolic, witness character symbolic; complete specifications of shapes %s' % (anys, built_shapes(tier)),
            'outside': ['more states / transitions per state', 'other key types than u32 (BaseRegLan keys are exercised through compile in C02)',
                        'acceptance of overlapping labels with equal targets is not demanded (documented as rejected)']}


def c14(tier, seed):
    jobs = built_jobs(tier, [0, 1, 4, 5])
    nm = [(1, 1), (2, 2), (3, 2), (2, 3), (3, 3)] if tier == 'quick' else [(1, 1), (2, 2), (3, 2), (2, 3), (3, 3), (4, 3), (3, 4)]
    for n, m in nm:
        for d in (0, 1):
            jobs.append(J('vh_c14_table', [n, m, d], 'compact table %dx%d %s' % (n, m, 'with defaults' if d else 'all cells given'), cost=2 ** (n * m * d)))
    return {'jobs': jobs,
            'bounds': 'builder-made complete automata of shapes %s with symbolic labels/targets/defaults/final marks (unreachable states arise from '
                      'the symbolic targets), symbolic characters x,y and a symbolic string; CompactTableBuilder driven directly on %s tables with a '
                      'symbolic choice of non-default cells; compiled automata are covered in C02' % (built_shapes(tier), nm),
            'outside': ['larger automata / tables']}


def c04(tier, seed):
    jobs = []
    nm = [(1, 1), (2, 1), (2, 2), (3, 1), (3, 2), (4, 1)] if tier == 'quick' else [(1, 1), (2, 1), (2, 2), (3, 1), (3, 2), (3, 3), (4, 1), (4, 2), (5, 1)]
    for n, m in nm:
        jobs.append(J('vh_c04_table', [n, m, 0], 'Hopcroft on an arbitrary %d-state %d-letter table' % (n, m), cost=(n ** (n * m)) * 2 ** n))
    if tier == 'quick':
        # the full 5x1 and 4x2 spaces belong to the thorough tier (28 000+ paths each); the quick tier keeps two slices of
        # them with concrete final sets (symbolic successors), among them the slices in which the repaired take_list
        # defect (known_findings.txt) manifests
        for n, m, mask in [(5, 1, 0b10100), (5, 1, 0b00011), (5, 1, 0b01110)]:
            jobs.append(J('vh_c04_table', [n, m, mask + 1], 'Hopcroft on %d-state %d-letter tables with final set mask %s (successors symbolic)' % (n, m, bin(mask)), cost=n ** (n * m)))
    jobs += built_jobs(tier, [2, 3])
    return {'jobs': jobs,
            'bounds': ('QUICK ADDS: 5-state 1-letter tables with final sets {2,4}, {0,1}, {1,2,3} (successors symbolic). ' if tier == 'quick' else '') +
                      'Minimizer::refine on every complete transition table with %s (states x letters): all successors and final flags symbolic, '
                      'compared with Moore distinguishability; Automaton::minimize on builder-made automata of shapes %s: bisimulation of initial '
                      'states on the union automaton (language equality for strings of any length on that path), pairwise distinguishable result, '
                      'state count = Nerode index; compiled expressions are covered in C02' % (nm, built_shapes(tier)),
            'outside': ['more states / letters (4 states x 3 letters and beyond were not explored)']}


def RJ(harness, api, n, b, extra, sh, label, **kw):
    toks = S.tokens(sh) if not isinstance(sh, list) else sh
    return J(harness, [api, n, b, extra] + toks, label, cost=kw.pop('cost', 4 ** (S.nsym(sh) if not isinstance(sh, list) else 4) * 3 ** n), **kw)


def regex_shapes(prop, tier, seed, cap_quick=None, cap_thorough=10):
    if tier == 'quick':
        sh = S.quick_list(prop, seed)
        if cap_quick:
            rnd = random.Random(seed * 13 + len(prop))
            keep = sh[:]
            rnd.shuffle(keep)
            sh = [x for x in sh if x in keep[:cap_quick]]
        return sh
    return S.thorough_list(prop, seed, cap_thorough)


REGEX_OUT = ['construction programs outside the listed shapes (deeper nesting)', 'strings longer than the stated length',
             'loop bounds above the stated B (their arithmetic is covered by C15)']


def regex_spec(jobs, shapes, tier, what, nmax, b):
    return {'jobs': jobs,
            'bounds': '%s; %d construction shapes (structure concrete, all range end points / characters / loop bounds symbolic, loop bounds in [0,%d]); '
                      'strings of length <= %d with symbolic characters; shapes: %s' % (what, len(shapes), b, nmax, ' '.join(S.show(x) for x in shapes[:400])),
            'outside': REGEX_OUT}


def c01(tier, seed):
    shapes = regex_shapes('C01', tier, seed)
    ns, b = ((1, 2), 2) if tier == 'quick' else ((0, 1, 2, 3), 3)
    jobs = []
    for k, sh in enumerate(shapes):
        for n in ns:
            if tier == 'quick' and n != ns[-1] and S._costs().get(S.show(sh), 0) > 120 and k % 3 != seed % 3:
                continue   # quick: for the expensive shapes the shorter length only on a seed-rotated third
            jobs.append(RJ('vh_c01_member', 0, n, b, 0, sh, 'member %s |w|=%d' % (S.show(sh), n)))
        if k % 4 == seed % 4:
            jobs.append(RJ('vh_c01_member', 1, ns[-1] if tier == 'quick' else 2, b, 0, sh, 'member via re_* wrappers %s' % S.show(sh)))
        if not isinstance(sh, str) and sh[0] in ('concat', 'union', 'inter', 'diff') and (tier == 'thorough' or k % 2 == seed % 2):
            jobs.append(RJ('vh_c01_member', 2, ns[-1] if tier == 'quick' else 2, b, 0, sh, 'member via *_list constructors %s' % S.show(sh)))
    return regex_spec(jobs, shapes, tier, 'str_in_re and nullable against the SMT-LIB denotation (ReManager API; for every 4th shape the re_* wrappers; for binary-operator shapes the n-ary *_list constructors)', ns[-1], b)


def c03(tier, seed):
    shapes = regex_shapes('C03', tier, seed)
    ns, b = ((1,), 2) if tier == 'quick' else ((0, 1, 2), 3)
    jobs = []
    for sh in shapes:
        for n in ns:
            jobs.append(RJ('vh_c03_deriv', 0, n, b, 0, sh, 'char/class derivative %s |w|=%d' % (S.show(sh), n)))
        jobs.append(RJ('vh_c03_deriv', 0, ns[0], b, 1, sh, 'set derivative %s |w|=%d' % (S.show(sh), ns[0])))
    return regex_spec(jobs, shapes, tier, 'char_derivative / class_derivative (every class, symbolic member) / set_derivative (symbolic [a,b]) / str_derivative / BadClassId', ns[-1] + 1, b)


def c02(tier, seed):
    shapes = regex_shapes('C02', tier, seed)
    ns, b = ((0, 2), 2) if tier == 'quick' else ((0, 1, 2, 3), 3)
    jobs = []
    for sh in shapes:
        for n in ns:
            jobs.append(RJ('vh_c02_compile', 0, n, b, 0, sh, 'compile: language, totality, inductive step %s |w|=%d' % (S.show(sh), n)))
        jobs.append(RJ('vh_c02_compile', 0, 1, b, 1, sh, 'compiled automaton: structure (C14) + minimize (C04) %s' % S.show(sh)))
    return regex_spec(jobs, shapes, tier, 'compile/try_compile: acceptance = denotation on bounded strings, next total for symbolic char in every state, '
                      'states = derivative closure in BFS order with delta(state_i,c) = state of char_derivative(term_i,c) (one inductive step, any length); '
                      'structure and minimize checks of C14/C04 on the compiled automaton', ns[-1], b)


def c05(tier, seed):
    shapes = regex_shapes('C05', tier, seed)
    ns, b = ((2,), 2) if tier == 'quick' else ((1, 2, 3), 3)
    jobs = [RJ('vh_c05_empty', 0, n, b, 0, sh, 'emptiness/witness %s |w|=%d' % (S.show(sh), n)) for sh in shapes for n in ns]
    return regex_spec(jobs, shapes, tier, 'is_empty_re / get_string: agreement, witness is well formed and a member by membership test, oracle and compiled automaton; '
                      'empty => no member among symbolic strings up to the bound and no nullable derivative', ns[-1], b)


def c18(tier, seed):
    shapes = regex_shapes('C18', tier, seed)
    ns, b = ((0, 1), 2) if tier == 'quick' else ((0, 1, 2), 3)
    jobs = [RJ('vh_c18_start', 0, n, b, 0, sh, 'start_char/start_class %s |w|=%d' % (S.show(sh), n)) for sh in shapes for n in ns
            if not (tier == 'quick' and n == 0 and S._costs().get(S.show(sh), 99) > 25 and S.show(sh) not in S.FORCE_QUICK.get('C18', ()))]
    return regex_spec(jobs, shapes, tier, 'start_char(e,c) for symbolic c against emptiness of the derivative and against the oracle (member c.w => true; true => witness c.v is a member); '
                      'start_class per class with a symbolic member; BadClassId', ns[-1] + 1, b)


def c19(tier, seed):
    shapes = regex_shapes('C19', tier, seed)
    b = 2 if tier == 'quick' else 3
    jobs = [RJ('vh_c19_closure', 0, 0, b, 0, sh, 'derivative closure / try_compile bound %s' % S.show(sh)) for sh in shapes]
    return regex_spec(jobs, shapes, tier, 'iter_derivatives: e first, pairwise distinct, closed under char_derivative for symbolic c; try_compile(e,n) with symbolic n', 0, b)


def c16(tier, seed):
    prs = S.pairs(tier, seed, 40)
    ns, b = ((2, 3), 2) if tier == 'quick' else ((1, 2, 3), 2)
    ext = 0 if tier == 'quick' else 1
    jobs = []
    for (r, s2) in prs:
        for n in ns:
            toks = S.tokens(r) + S.tokens(s2)
            if tier == 'quick' and n == 3 and S.pair_cost(r, s2) > 200:
                continue   # quick: the longer string only for the cheaper pairs
            jobs.append(J('vh_c16_incl', [0, n, b, ext] + toks, 'included_in %s <= %s |w|=%d' % (S.show(r), S.show(s2), n),
                          cost=4 ** (S.nsym(r) + S.nsym(s2)) * 3 ** n))
    return {'jobs': jobs,
            'bounds': '%d ordered pairs of shapes (symbolic ranges/characters/loop bounds), strings of length %s with symbolic characters; '
                      'pairs: %s' % (len(prs), ns, ' ; '.join('%s <= %s' % (S.show(r), S.show(s2)) for r, s2 in prs[:200])),
            'outside': REGEX_OUT + ['inclusion claims that need a longer string to be refuted']}


def c07(tier, seed):
    shapes = regex_shapes('C07', tier, seed, cap_thorough=10)
    costs = S._costs()
    # histories multiply the paths of a shape; the history harness uses a hand-picked list containing every operator
    # (both tiers); the wrapper harness (no selector product) takes the tier's shapes
    C = 'char'
    hist = [('concat', C, C), ('union', C, C), ('inter', ('star', C), ('comp', C)), ('comp', ('concat', C, 'all')),
            ('diff', 'all', ('concat', C, 'all')), ('loop', C), ('concat', ('star', C), C), ('union', ('comp', C), C),
            ('diff', C, ('comp', C)), ('inter', ('comp', C), ('comp', C)), ('inter', ('plus', 'allchar'), C)]
    steps, b = (1, 2) if tier == 'quick' else (2, 2)
    jobs = []
    names = ['char', 'concat', 'union', 'complement', 'derivative', 'compile', 'emptiness', 'star']
    rnd = random.Random(seed * 97 + 7)
    for k, sh in enumerate(hist):
        if tier == 'quick':
            # concrete histories: every menu entry once before and once after the first build (rotated pairing)
            for a in range(8):
                bsel = (a + 1 + k + seed) % 8
                extra = 1 | (1 << 4) | (a << 8) | (bsel << 12)
                jobs.append(RJ('vh_c07_hashcons', 0, 1, b, extra, sh, 'hash-consing, history %s | build | %s | rebuild: %s' % (names[a], names[bsel], S.show(sh)), cost=30))
        else:
            jobs.append(RJ('vh_c07_hashcons', 0, 1, b, 1, sh, 'hash-consing under all 8x8 one-step histories (symbolic selectors): %s' % S.show(sh), cost=64 * 30))
            for _ in range(6):
                sel = [rnd.randrange(8) for _ in range(4)]
                extra = 2 | (1 << 4) | (sel[0] << 8) | (sel[1] << 12) | (sel[2] << 16) | (sel[3] << 20)
                jobs.append(RJ('vh_c07_hashcons', 0, 1, b, extra, sh, 'hash-consing, history %s: %s' % ([names[x] for x in sel], S.show(sh)), cost=60))
    # cache-order variant: every sub-term is queried before the term itself (one concrete history per shape)
    for sh in (hist if tier == 'thorough' else [x for x in hist if 'comp' in S.show(x) or 'diff' in S.show(x)]):
        extra = 1 | (1 << 4) | (1 << 5) | (0 << 8) | (4 << 12)
        jobs.append(RJ('vh_c07_hashcons', 0, 1, b, extra, sh, 'hash-consing, sub-terms queried first (derivative cache order): %s' % S.show(sh), cost=60))
    wshapes = [sh for sh in shapes if costs.get(S.show(sh), 99) <= 6.0] if tier == 'quick' else shapes
    for sh in wshapes:
        jobs.append(RJ('vh_c07_wrappers', 1, 1, b, 0 if tier == 'quick' else 1, sh, 'thread-local manager history: %s' % S.show(sh)))
    return regex_spec(jobs, shapes, tier, 'rebuild after histories taken from a menu of 8 operations (char, concat, union, complement, derivative, compile, emptiness, star) '
                      'before and after the first build, on %d shapes: quick = 8 concrete one-step histories per shape (every menu entry before, rotated entry after), '
                      'thorough = all 64 one-step histories by symbolic selectors plus seed-chosen two-step histories; pointer identity, == iff identity, complement '
                      'involution, language independent of history; wrapper variant on the thread-local manager with operand-order variation on all shapes' % len(hist), 1, b)


def c10(tier, seed):
    shapes = regex_shapes('C10', tier, seed, cap_thorough=10)
    ns, tl, b = ((0, 1, 2), 1, 2) if tier == 'quick' else ((0, 1, 2, 3), 1, 2)
    jobs = [RJ('vh_c10_replace', 1, n, b, tl, sh, 'replace_re / replace_re_all pattern %s |s|=%d |t|=%d' % (S.show(sh), n, tl)) for sh in shapes for n in ns]
    # longer subjects for patterns whose matches can overlap a failed partial match (needs |pattern| >= 3, |s| >= 4)
    long_pats = [('str', 3)] if tier == 'quick' else [('str', 3), ('concat', 'char', ('concat', 'char', 'char')), ('union', ('str', 3), ('str', 2))]
    for sh in long_pats:
        for n in ((4,) if tier == 'quick' else (4, 5)):
            jobs.append(RJ('vh_c10_replace', 1, n, b, 1, sh, 'replace_re / replace_re_all pattern %s |s|=%d |t|=1' % (S.show(sh), n)))
    return regex_spec(jobs, shapes, tier, 'str_replace_re / str_replace_re_all through the thread-local manager: leftmost-then-shortest (possibly empty) match, resp. '
                      'left-to-right leftmost-shortest non-empty matches, as boolean formula over all concrete (i,j); replacement of length %d' % tl, ns[-1], b)


PROPS = {'C01': c01, 'C02': c02, 'C03': c03, 'C05': c05, 'C07': c07, 'C10': c10, 'C16': c16, 'C18': c18, 'C19': c19, 'C13': c13, 'C14': c14, 'C04': c04, 'C06': c06, 'C09': c09, 'C17': c17, 'C08': c08, 'C15': c15, 'C11': c11, 'C12': c12, 'C20': c20}


def get(pid, tier, seed):
    if pid not in PROPS:
        raise SystemExit('unknown property ' + str(pid))
    return PROPS[pid](tier, seed)
