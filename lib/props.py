"""Per-property instance generators: which harness instances (harness symbol + concrete size/shape
parameters) make up the quick and the thorough tier of each property."""
import random


def J(harness, params, label, profile='dev', cost=1, **limits):
    j = {'harness': harness, 'params': list(params), 'label': label, 'profile': profile, 'cost': cost}
    if limits:
        j['limits'] = limits
    return j


def c11(tier, seed):
    jobs = []
    nmax = 3 if tier == 'quick' else 4
    rnd = random.Random(seed)
    for n in range(0, nmax + 1):
        for group in (0, 1, 2):
            # construction by push
            jobs.append(J('vh_c11_queries', [n, 0, 0, group], 'n=%d push group=%d' % (n, group), cost=2 ** n))
            if n == 1:
                jobs.append(J('vh_c11_queries', [n, 2, 0, group], 'n=1 from_set group=%d' % group))
            if n >= 1:
                nperm = {1: 1, 2: 2, 3: 6, 4: 24}[n]
                perms = list(range(nperm))
                if tier == 'quick' and n >= 3:
                    perms = sorted(set([0, nperm - 1, rnd.randrange(nperm)]))
                elif n == 4:
                    perms = sorted(set([0, 23] + [rnd.randrange(24) for _ in range(6)]))
                for pk in perms:
                    for mode in (1, 3):
                        jobs.append(J('vh_c11_queries', [n, mode, pk, group],
                                      'n=%d %s perm=%d group=%d' % (n, 'try_from_iter' if mode == 1 else 'try_from_list', pk, group),
                                      cost=2 ** n))
    for n in range(0, nmax + 1):
        for api in (1, 3):
            jobs.append(J('vh_c11_try_from', [n, api], 'try_from n=%d api=%d arbitrary overlapping inputs' % (n, api), cost=4 ** n))
    return {
        'jobs': jobs,
        'bounds': 'partitions of 0..%d intervals, every end point symbolic over [0,0x2FFFF] (adjacent, touching 0/MAX, full, empty inside '
                  'the space); query char / query set [a,b] / class index symbolic (full range); construction by push, from_set, '
                  'try_from_iter/try_from_list over permutations; try_from_* on arbitrary (overlapping, unordered) symbolic inputs' % nmax,
        'outside': ['partitions with more than %d intervals' % nmax],
    }


PROPS = {'C11': c11}


def get(pid, tier, seed):
    if pid not in PROPS:
        raise SystemExit('unknown property ' + str(pid))
    return PROPS[pid](tier, seed)
