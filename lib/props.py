"""Per-property instance generators: which harness instances (harness symbol + concrete size/shape
parameters) make up the quick and the thorough tier of each property."""
import random


def J(harness, params, label, profile='dev', cost=1, **limits):
    j = {'harness': harness, 'params': list(params), 'label': label, 'profile': profile, 'cost': cost}
    if limits:
        j['limits'] = limits
    return j


def c11(tier, seed):
    jobs = []
    nmax = 3 if tier == 'quick' else 4
    rnd = random.Random(seed)
    for n in range(0, nmax + 1):
        for group in (0, 1, 2):
            # construction by push
            jobs.append(J('vh_c11_queries', [n, 0, 0, group], 'n=%d push group=%d' % (n, group), cost=2 ** n))
            if n == 1:
                jobs.append(J('vh_c11_queries', [n, 2, 0, group], 'n=1 from_set group=%d' % group))
            if n >= 1:
                nperm = {1: 1, 2: 2, 3: 6, 4: 24}[n]
                perms = list(range(nperm))
                if tier == 'quick' and n >= 3:
                    perms = sorted(set([0, nperm - 1, rnd.randrange(nperm)]))
                elif n == 4:
                    perms = sorted(set([0, 23] + [rnd.randrange(24) for _ in range(6)]))
                for pk in perms:
                    for mode in (1, 3):
                        jobs.append(J('vh_c11_queries', [n, mode, pk, group],
                                      'n=%d %s perm=%d group=%d' % (n, 'try_from_iter' if mode == 1 else 'try_from_list', pk, group),
                                      cost=2 ** n))
    for n in range(0, nmax + 1):
        for api in (1, 3):
            jobs.append(J('vh_c11_try_from', [n, api], 'try_from n=%d api=%d arbitrary overlapping inputs' % (n, api), cost=4 ** n))
    return {
        'jobs': jobs,
        'bounds': 'partitions of 0..%d intervals, every end point symbolic over [0,0x2FFFF] (adjacent, touching 0/MAX, full, empty inside '
                  'the space); query char / query set [a,b] / class index symbolic (full range); construction by push, from_set, '
                  'try_from_iter/try_from_list over permutations; try_from_* on arbitrary (overlapping, unordered) symbolic inputs' % nmax,
        'outside': ['partitions with more than %d intervals' % nmax],
    }


def c20(tier, seed):
    jobs = [J('vh_c20_charset', [g, 0], 'group=%d' % g) for g in (0, 1, 2)]
    kmax = 3 if tier == 'quick' else 4
    jobs += [J('vh_c20_charset', [3, k], 'inter_list k=%d' % k, cost=k + 1) for k in range(0, kmax + 1)]
    return {'jobs': jobs,
            'bounds': 'two symbolic intervals a<=b<=0x2FFFF, c<=d<=0x2FFFF and a symbolic u32 x (full 32-bit range); inter_list over 0..%d symbolic intervals' % kmax,
            'outside': ['inter_list on more than %d sets' % kmax]}


def c12(tier, seed):
    jobs = []
    nm = 2 if tier == 'quick' else 3
    for n in range(0, nm + 1):
        for m in range(0, nm + 1):
            jobs.append(J('vh_c12_merge', [n, m], 'merge %dx%d' % (n, m), cost=10 ** (n + m)))
    if tier == 'thorough':
        jobs += [J('vh_c12_merge', [4, 1], 'merge 4x1', cost=10 ** 5), J('vh_c12_merge', [1, 4], 'merge 1x4', cost=10 ** 5)]
    laws = [(0, 0, 0), (1, 0, 0), (1, 1, 0), (1, 1, 1), (2, 1, 0)] if tier == 'quick' else \
        [(0, 0, 0), (1, 0, 0), (1, 1, 0), (1, 1, 1), (2, 0, 0), (2, 1, 0), (2, 1, 1), (2, 2, 0)]
    for (a, b, c) in laws:
        jobs.append(J('vh_c12_laws', [a, b, c], 'laws %d,%d,%d' % (a, b, c), cost=30 ** (a + b + c)))
    return {'jobs': jobs,
            'bounds': 'merge_partitions on n x m intervals, n,m <= %d, all end points symbolic over [0,0x2FFFF]; characters x,y,z symbolic; '
                      'merge_partition_list over 3 partitions (sizes %s) under all 6 orders' % (nm, laws),
            'outside': ['partitions with more intervals', 'lists longer than 3'],
            'assumptions': ['C12 is checked in the reading given in DESIGN.md 4.C12: refinement + maximality on adjacent characters + '
                            'complement = intersection of complements with least witness (the literal all-pairs reading is unsatisfiable for interval lists)']}


def c15(tier, seed):
    jobs = []
    for ri in (0, 1):
        for si in (0, 1):
            for g in (0, 1, 2, 3):
                jobs.append(J('vh_c15_basic', [ri, si, g], 'basic r=%s s=%s group=%d' % ('inf' if ri else 'fin', 'inf' if si else 'fin', g)))
    ks = list(range(0, 13)) + [100, 65535, 2 ** 31 - 1, 2 ** 32 - 2] if tier == 'quick' else list(range(0, 65)) + [100, 1000, 65535, 65536, 2 ** 31 - 1, 2 ** 31, 2 ** 32 - 2]
    for ri in (0, 1):
        for k in ks:
            jobs.append(J('vh_c15_scale', [ri, 0, k], 'scale r=%s k=%d full-width parameters' % ('inf' if ri else 'fin', k), cost=5))
        jobs.append(J('vh_c15_scale', [ri, 1, 7, 15], 'scale r=%s symbolic k<=7, parameters <= 15' % ('inf' if ri else 'fin'), cost=50))
        jobs.append(J('vh_c15_scale_overflow', [ri], 'scale overflow panics r=%s' % ('inf' if ri else 'fin'), cost=20))
    b = 6 if tier == 'quick' else 12
    for ri in (0, 1):
        for si in (0, 1):
            jobs.append(J('vh_c15_mul', [ri, si, b], 'mul/right_mul_is_exact r=%s s=%s parameters <= %d' % ('inf' if ri else 'fin', 'inf' if si else 'fin', b), cost=100))
    return {'jobs': jobs,
            'bounds': 'contains/includes/add/shift: all parameters and members symbolic over the full u32 range; scale: concrete k in %s with full-width symbolic parameters, '
                      'and symbolic k <= 7 with parameters <= 15; mul and right_mul_is_exact: parameters <= %d, members <= %d, x <= %d '
                      '(symbolic x symbolic multiplication is bounded in width, not decided at 32 bits)' % (ks, b, 2 * b, b * b + 2 * b + 2),
            'outside': ['mul / right_mul_is_exact with parameters above %d' % b, 'scale factors k outside the listed set when parameters exceed 15']}


def c06(tier, seed):
    jobs = []
    smax, tmax, rmax = (3, 2, 1) if tier == 'quick' else (4, 3, 2)
    for n in range(0, smax + 1):
        for m in range(0, tmax + 1):
            jobs.append(J('vh_c06_strings', [n, m, 0, 0], 'concat/len/at/prefixof/suffixof/contains |s|=%d |t|=%d' % (n, m), cost=3 ** (n + m)))
            jobs.append(J('vh_c06_strings', [n, m, 0, 2], 'indexof |s|=%d |t|=%d' % (n, m), cost=3 ** (n + m)))
            for l in range(0, rmax + 1):
                jobs.append(J('vh_c06_strings', [n, m, l, 3], 'replace |s|=%d |p|=%d |r|=%d' % (n, m, l), cost=3 ** (n + m)))
                jobs.append(J('vh_c06_strings', [n, m, l, 4], 'replace_all |s|=%d |p|=%d |r|=%d' % (n, m, l), cost=4 ** (n + m)))
        jobs.append(J('vh_c06_strings', [n, 0, 0, 1], 'substr |s|=%d' % n, cost=3 ** n))
    return {'jobs': jobs,
            'bounds': '|s| <= %d, |pattern| <= %d, |replacement| <= %d (every length combination); every character symbolic over [0,0x2FFFF]; '
                      'index and length arguments symbolic over the full i32 range' % (smax, tmax, rmax),
            'outside': ['longer strings']}


def c09(tier, seed):
    jobs = []
    L = 2 if tier == 'quick' else 3
    for a in range(0, L + 1):
        for b in range(0, L + 1):
            for c in range(0, L + 1):
                jobs.append(J('vh_c09_order', [a, b, c], 'order |a|=%d |b|=%d |c|=%d' % (a, b, c), cost=2 ** (a + b + c)))
    for prof in ('dev', 'rel'):
        for n in range(0, 12):
            jobs.append(J('vh_c09_to_int', [n], 'to_int length %d (%s profile)' % (n, prof), profile=prof, cost=2 ** n))
        for n in range(0, 3):
            jobs.append(J('vh_c09_code', [n], 'to_code/from_code/is_digit |s|=%d (%s)' % (n, prof), profile=prof))
        if tier == 'quick':
            jobs.append(J('vh_c09_from_int', [0, (-2 ** 31) & 0xffffffff, 99999], 'from_int n in [-2^31, 10^5) (%s)' % prof, profile=prof, cost=500))
        else:
            jobs.append(J('vh_c09_from_int', [1], 'from_int full i32 range (%s)' % prof, profile=prof, cost=5000))
    return {'jobs': jobs,
            'bounds': 'order: three strings of lengths 0..%d, symbolic characters; str_to_int: every length 0..11, symbolic characters, in BOTH '
                      'build configurations (dev: overflow-checks on, rel: off); from_int: %s; codes: full i32 / alphabet' % (
                          L, 'n in [-2^31, 10^5)' if tier == 'quick' else 'full i32 range'),
            'outside': ['strings longer than 11 for str_to_int (they all overflow)', 'order on longer strings']}


def c17(tier, seed):
    jobs = [J('vh_c17_constructors', [g], 'group %d' % g) for g in range(0, 5)]
    return {'jobs': jobs,
            'bounds': 'From<u32>/From<&[u32]>/From<Vec<u32>>/From<&[u32;3]> on symbolic u32 (full range); From<char>/From<&str>/From<String>/'
                      'parse_smt_literal on a symbolic Rust char over all scalar values (U+0000..U+10FFFF without surrogates); is_good of '
                      'every result is additionally asserted in the C05/C06/C08/C10 harnesses',
            'outside': ['strings with more than 3 characters built through the conversions']}


def c08(tier, seed):
    jobs = []
    L = 4 if tier == 'quick' else 5
    for n in range(0, L + 1):
        jobs.append(J('vh_c08_parse', [n] + [0] * n, 'parse: %d symbolic ASCII bytes' % n, cost=6 ** n))
    B, U, LB, RB = 92, 117, 123, 125
    templates = [
        ('\\u{ + 3 symbolic + }', [B, U, LB, 0, 0, 0, RB]),
        ('\\u{ + 2 symbolic + } + 1 symbolic', [B, U, LB, 0, 0, RB, 0]),
        ('\\u + 4 symbolic', [B, U, 0, 0, 0, 0]),
        ('\\u{2 + 4 symbolic + }', [B, U, LB, 50, 0, 0, 0, 0, RB]),
        ('\\u{ + hex a + 3 symbolic + 2 more hex + } (overlong)', [B, U, LB, 97, 0, 0, 0, 49, 50, RB]),
        ('1 symbolic + \\u{41} + 1 symbolic', [0, B, U, LB, 52, 49, RB, 0]),
        ('\\u{ \\u{ 2 symbolic }', [B, U, LB, B, U, LB, 0, 0, RB]),
        ('\\u12 \\u 4 symbolic', [B, U, 49, 50, B, U, 0, 0, 0, 0]),
    ]
    if tier == 'thorough':
        templates += [
            ('\\u{ + 5 symbolic + }', [B, U, LB, 0, 0, 0, 0, 0, RB]),
            ('\\u{ + 4 symbolic + 2 symbolic', [B, U, LB, 0, 0, 0, 0, 0, 0]),
            ('2 symbolic + u{ + 2 symbolic + }', [0, 0, U, LB, 0, 0, RB]),
        ]
    for name, t in templates:
        jobs.append(J('vh_c08_parse', [len(t)] + t, 'parse template ' + name, cost=6 ** sum(1 for x in t if x == 0)))
    P = 2 if tier == 'quick' else 3
    for n in range(0, P + 1):
        jobs.append(J('vh_c08_print', [n] + [0] * n, 'print: %d symbolic code points' % n, cost=20 ** n))
    ch = lambda c: ord(c) + 1
    ptemplates = [
        ('X u { 4 1 }', [0, ch('u'), ch('{'), ch('4'), ch('1'), ch('}')]),
        ('X u 0 0 4 1', [0, ch('u'), ch('0'), ch('0'), ch('4'), ch('1')]),
        ('\\ X { 4 1 }', [ch('\\'), 0, ch('{'), ch('4'), ch('1'), ch('}')]),
        ('" X "', [ch('"'), 0, ch('"')]),
        ('X Y { 4 }', [0, 0, ch('{'), ch('4'), ch('}')]),
    ]
    for name, t in ptemplates:
        jobs.append(J('vh_c08_print', [len(t)] + t, 'print template ' + name, cost=20 ** sum(1 for x in t if x == 0)))
    return {'jobs': jobs,
            'bounds': 'parser: all texts of 0..%d symbolic ASCII bytes, plus escape templates with symbolic positions (see labels); printer: all '
                      'strings of 0..%d symbolic code points over [0,0x2FFFF] through core::fmt, plus templates that spell escapes with 1-2 symbolic positions' % (L, P),
            'outside': ['longer fully symbolic texts', 'non-ASCII literal text (covered for single characters by C17)']}


PROPS = {'C06': c06, 'C09': c09, 'C17': c17, 'C08': c08, 'C15': c15, 'C11': c11, 'C12': c12, 'C20': c20}


def get(pid, tier, seed):
    if pid not in PROPS:
        raise SystemExit('unknown property ' + str(pid))
    return PROPS[pid](tier, seed)
