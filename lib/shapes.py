"""Construction-program shapes for the regex properties: a tiny DSL -> prefix token stream understood by
harness/h_regular_expressions.rs.  The *structure* of a shape is concrete; every range end point, character and
loop bound is a fresh symbolic input drawn by the harness."""
import itertools
import random

T = dict(none=0, eps=1, allchar=2, all=3, range=4, char=5, str=6, smtrange=7, concat=10, union=11, inter=12, diff=13,
         comp=20, star=21, plus=22, opt=23, power=24, loop=25, loopinf=26, ref=30, range0=31, rangemax=32, adj=33)

ATOMS = ('none', 'eps', 'allchar', 'all', 'range', 'char', 'smtrange', 'range0', 'rangemax', 'adj')
UNARY = ('comp', 'star', 'plus', 'opt', 'power', 'loop', 'loopinf')
BINARY = ('concat', 'union', 'inter', 'diff')


def tokens(sh):
    """shape (nested tuples / strings) -> token list, prefix order"""
    if isinstance(sh, str):
        return [T[sh]]
    op = sh[0]
    if op == 'str':
        return [T['str'], sh[1]]
    if op == 'ref':
        return [T['ref'], sh[1]]
    out = [T[op]]
    for c in sh[1:]:
        out += tokens(c)
    return out


def show(sh):
    if isinstance(sh, str):
        return sh
    if sh[0] in ('str', 'ref'):
        return '%s%d' % (sh[0], sh[1])
    return '%s(%s)' % (sh[0], ','.join(show(c) for c in sh[1:]))


def size(sh):
    if isinstance(sh, str) or sh[0] in ('str', 'ref'):
        return 1
    return 1 + sum(size(c) for c in sh[1:])


def nsym(sh):
    """rough count of symbolic inputs / forks (cost estimate)"""
    if isinstance(sh, str):
        return {'range': 2, 'char': 1, 'smtrange': 2, 'range0': 1, 'rangemax': 1, 'adj': 1}.get(sh, 0)
    if sh[0] == 'str':
        return sh[1]
    if sh[0] == 'ref':
        return 0
    return sum(nsym(c) for c in sh[1:]) + {'power': 1, 'loop': 2, 'loopinf': 1}.get(sh[0], 0)


R, C = 'range', 'char'

# Curated list: chosen to hit every rewrite rule of concat / mk_loop / make_inter / make_union /
# simplify_set_operation / sub_language and the derivative rules.
CURATED = [
    # atoms and boundary ranges
    'none', 'eps', 'allchar', 'all', R, C, 'smtrange', 'range0', 'rangemax', ('str', 2),
    # loops over special bodies (mk_loop rules)
    ('star', 'none'), ('opt', 'none'), ('loop', 'none'), ('loopinf', 'none'), ('power', 'none'), ('plus', 'none'),
    ('star', 'eps'), ('loop', 'eps'), ('star', 'all'), ('plus', 'allchar'),
    ('star', R), ('plus', R), ('opt', R), ('power', R), ('loop', R), ('loopinf', R),
    # loop of loop (flattening only when exact)
    ('loop', ('loop', C)), ('star', ('loop', R)), ('loop', ('star', C)), ('power', ('opt', C)), ('loopinf', ('power', C)),
    ('loop', ('loopinf', C)), ('star', ('star', R)), ('opt', ('plus', C)),
    # concat rules: R.R^[i,j], R^[a,b].R^[c,d], R^[i,j].R, neutral / absorbing elements
    ('concat', R, R), ('concat', R, ('star', R)), ('concat', R, ('loop', ('ref', 0))), ('concat', ('loop', C), ('ref', 0)),
    ('concat', ('loop', C), ('loop', ('ref', 0))), ('concat', ('star', C), ('plus', ('ref', 0))), ('concat', ('power', C), ('loopinf', ('ref', 0))),
    ('concat', 'eps', R), ('concat', R, 'none'), ('concat', 'none', R), ('concat', 'all', 'all'), ('concat', ('opt', R), R),
    ('concat', ('concat', C, C), ('star', C)), ('concat', ('str', 2), ('str', 1)), ('concat', ('star', R), ('ref', 1)),
    ('concat', 'all', R), ('concat', R, 'all'), ('concat', ('opt', C), 'all'), ('concat', 'allchar', ('star', 'allchar')),
    # unions: subsumption, overlapping / adjacent / nested ranges, complement pairs
    ('union', R, R), ('union', R, 'adj'), ('union', C, R), ('union', R, 'all'), ('union', R, 'none'), ('union', 'eps', R),
    ('union', R, ('comp', ('ref', 0))), ('union', ('star', C), ('ref', 0)), ('union', ('concat', C, 'all'), ('concat', ('ref', 0), 'all')),
    ('union', ('concat', R, 'all'), ('concat', R, R)), ('union', ('concat', 'all', C), ('concat', C, C)),
    ('union', ('star', C), ('opt', ('ref', 1))), ('union', ('union', C, C), C), ('union', ('str', 1), ('star', C)),
    # intersections: epsilon cases, disjoint ranges (semantic emptiness), complement pairs
    ('inter', R, R), ('inter', C, C), ('inter', 'eps', ('star', R)), ('inter', 'eps', R), ('inter', R, ('comp', ('ref', 0))),
    ('inter', ('star', R), ('star', R)), ('inter', 'allchar', ('str', 2)), ('inter', ('concat', C, 'all'), ('concat', 'all', C)),
    ('inter', R, 'all'), ('inter', R, 'none'), ('inter', ('plus', C), ('opt', ('ref', 1))),
    # complement / diff
    ('comp', 'none'), ('comp', 'all'), ('comp', 'eps'), ('comp', R), ('comp', ('comp', R)), ('comp', ('star', R)),
    ('comp', ('concat', 'all', ('concat', C, 'all'))), ('diff', R, R), ('diff', ('star', C), 'eps'), ('diff', R, ('ref', 0)),
    ('diff', 'all', ('concat', C, 'all')), ('comp', ('union', C, 'eps')), ('inter', ('comp', C), ('comp', C)),
    # unions / intersections of complements (subsumption through the complement contraposition)
    ('union', ('comp', C), ('comp', R)), ('union', ('comp', R), ('comp', C)), ('inter', ('comp', C), ('comp', R)),
    ('union', ('comp', ('concat', C, 'all')), ('comp', ('str', 2))), ('union', ('comp', C), ('comp', 'allchar')),
    # powers of multi-character words (singleton languages that are not single characters)
    ('power', ('str', 2)), ('concat', ('str', 2), ('ref', 0)), ('loop', ('str', 2)), ('concat', C, ('power', ('str', 2))),
    # chains (exercise the n-ary list constructors and flattening)
    ('concat', C, ('concat', C, C)), ('union', C, ('union', 'eps', C)), ('inter', ('star', C), ('inter', ('comp', C), 'allchar')),
    ('diff', ('diff', 'all', C), C), ('union', ('union', C, 'none'), ('union', 'all', C)),
    # subsumption among complements that only arises inside a derivative or under an intersection
    ('inter', ('union', ('comp', C), ('comp', R)), C), ('union', ('comp', ('concat', C, C)), ('comp', ('concat', ('ref', 0), R))),
    ('union', ('comp', ('concat', 'allchar', C)), ('comp', ('concat', C, R))),
    # predefined terms (Sigma+, Sigma, epsilon, Sigma*) next to the first terms a fresh manager creates (id adjacency)
    ('inter', ('plus', 'allchar'), C), ('union', ('plus', 'allchar'), C), ('inter', C, ('plus', 'allchar')), ('inter', 'allchar', C),
    ('union', 'allchar', C), ('inter', ('plus', 'allchar'), ('comp', C)), ('diff', ('plus', 'allchar'), C),
    # unions whose operands differ by a loop that cannot match the empty string (subsumption must not drop the shorter one)
    ('union', C, ('concat', ('ref', 0), ('plus', C))), ('union', ('concat', C, C), ('concat', ('ref', 0), ('concat', ('loop', C), ('ref', 1)))),
    ('union', C, ('concat', ('ref', 0), ('plus', 'allchar'))),
    # nullable bodies under loops with lower bound >= 1 that cannot be flattened
    ('plus', ('union', ('star', C), C)), ('power', ('concat', ('opt', C), ('opt', C))), ('concat', ('plus', ('concat', ('star', C), ('star', C))), C),
    # nullable left operands (derivative of concat must look at the right operand)
    ('concat', ('star', C), C), ('concat', ('opt', R), ('opt', R)), ('concat', ('union', 'eps', C), R),
    ('concat', ('comp', C), C), ('concat', ('inter', ('star', C), ('star', C)), C),
    # derivatives that are empty semantically but not syntactically (emptiness must be decided, not pattern-matched)
    ('comp', ('concat', C, ('union', 'eps', ('plus', 'allchar')))), ('inter', ('concat', C, C), ('concat', ('ref', 0), C)),
    ('comp', ('union', 'eps', ('plus', 'allchar'))), ('inter', ('concat', C, R), ('concat', ('ref', 0), ('comp', ('ref', 1)))),
    # nullable left operand followed by a semantically empty right operand; loops over nullable bodies before a character
    ('concat', ('star', C), ('inter', C, C)), ('concat', ('opt', C), ('inter', C, ('concat', C, C))),
    ('concat', ('power', ('union', 'eps', C)), C), ('concat', ('plus', ('union', 'eps', C)), C),
    # start_char traps: semantically empty operands
    ('concat', R, ('inter', C, C)), ('inter', 'allchar', ('concat', C, C)), ('concat', ('inter', R, R), R), ('loop', ('inter', C, C)),
    ('concat', C, ('diff', R, ('ref', 1))), ('union', ('inter', C, C), C),
]


def _costs():
    import json, os
    try:
        return json.load(open(os.path.join(os.path.dirname(os.path.abspath(__file__)), 'shape_costs.json')))
    except Exception:
        return {}


QUICK_CPU_CAP = {'C01': 600.0, 'C03': 150.0, 'C05': 300.0, 'C18': 60.0, 'C02': 60.0, 'C19': 60.0, 'C07': 40.0, 'C10': 60.0}
# CPU seconds per shape measured with the C19 harness (lib/shape_costs.json); harnesses that do less per path afford more


# shapes taken into a property's quick tier although they exceed its cost cap (each guards a rule that no cheaper shape
# reaches for that property)
FORCE_QUICK = {
    'C02': ["plus(union(star(char),char))"],
    'C03': ["plus(union(star(char),char))", "union(comp(char),comp(range))"],
    'C05': ["inter(plus(allchar),char)"],
    'C19': ["plus(union(star(char),char))"],
    'C18': ["concat(star(char),inter(char,char))", "concat(power(union(eps,char)),char)", "concat(plus(union(eps,char)),char)"],
}


def quick_list(prop, seed):
    """quick tier: the curated shapes whose measured exploration cost is below the cap (shapes with several independent
    ranges fork on the relative order of all end points and are left to the thorough tier; each rewrite rule they
    exercise is also exercised by a cheaper shape using singletons)"""
    costs = _costs()
    out = []
    for sh in CURATED:
        c = costs.get(show(sh))
        if show(sh) in FORCE_QUICK.get(prop, ()):
            out.append(sh)
        elif c is None:
            if nsym(sh) <= 1:
                out.append(sh)
        elif c <= QUICK_CPU_CAP.get(prop, 40.0) or show(sh) in FORCE_QUICK.get(prop, ()):
            out.append(sh)
    return out


def depth2(atoms=('none', 'eps', 'allchar', R, C), unary=UNARY, binary=BINARY):
    """all shapes of depth <= 2 over the atom set, deduplicated up to operand symmetry of union/inter"""
    d0 = list(atoms)
    d1 = list(d0)
    for u in unary:
        d1 += [(u, a) for a in d0]
    for b in binary:
        for x in d0:
            for y in d0:
                if b in ('union', 'inter') and d0.index(x) > d0.index(y):
                    continue
                d1.append((b, x, y))
    out = list(d1)
    seen = set(map(show, out))
    for u in unary:
        for a in d1:
            s = (u, a)
            if show(s) not in seen:
                seen.add(show(s))
                out.append(s)
    for b in binary:
        for x in d1:
            for y in d1:
                if size(x) + size(y) > 5:
                    continue
                s = (b, x, y)
                k = show(s) if b not in ('union', 'inter') else '%s{%s}' % (b, ','.join(sorted([show(x), show(y)])))
                if k not in seen:
                    seen.add(k)
                    out.append(s)
    return out


def thorough_list(prop, seed, cap):
    """curated list + a seed-dependent sample of the depth-2 space (the space itself is enumerated completely over
    many seeds; each run covers `cap` of them and says which)"""
    rnd = random.Random(seed * 104729 + sum(map(ord, prop)))
    space = depth2()
    cur = set(map(show, CURATED))
    space = [s for s in space if show(s) not in cur]
    rnd.shuffle(space)
    costs = _costs()
    # every curated shape whose measured cost is at most 300 CPU s (C19 with the 1000 s cap did not finish in 55 minutes)
    base = [sh for sh in CURATED if costs.get(show(sh), 0) <= 300 or show(sh) in FORCE_QUICK.get(prop, ())]
    return base + space[:cap]


# pairs for included_in (C16): concatenations mixing ranges, Sigma, Sigma*, loops, complements, unions
ELEMS = [R, C, 'allchar', 'all', ('star', R), ('loop', R), ('opt', C), ('comp', C), ('union', C, C), ('plus', 'allchar'), ('inter', R, R)]


def cat(xs):
    xs = list(xs)
    r = xs[-1]
    for x in reversed(xs[:-1]):
        r = ('concat', x, r)
    return r


PAIRS_CURATED = [
    (('comp', C), ('comp', R)), (('comp', R), ('comp', C)), (('comp', ('str', 2)), ('comp', cat(['all', C, 'all']))),
    # a loop that cannot match the empty string between rigid parts
    (C, cat([C, ('plus', C)])), (cat([C, C]), cat([C, ('loop', C), C])), (cat([C, ('star', C), C]), cat([C, ('plus', 'allchar'), C])),
    (cat([C, ('opt', C), C]), cat([C, ('loopinf', 'allchar'), C])),
    # flexible slots that are NOT Sigma*: a loop Sigma^[k,inf) with k >= 1 must not be treated as Sigma*
    (cat([C, C]), cat([C, ('plus', 'allchar'), C])), (C, cat([C, ('loopinf', 'allchar')])), (cat([C, C]), cat([C, ('plus', 'allchar')])),
    (cat([C, C]), cat([('plus', 'allchar'), C])), (cat([C, 'allchar', C]), cat([C, ('loopinf', 'allchar'), C])),
    (R, R), (C, R), (R, 'allchar'), (R, 'all'), ('none', R), ('eps', ('star', R)), (('star', R), ('star', R)), (('loop', R), ('star', R)),
    (('loop', R), ('loop', R)), (('power', C), ('loop', C)), (('plus', R), ('star', R)), (('opt', R), ('loop', R)),
    (cat([C, 'all']), cat(['allchar', 'all'])), (cat([C, C, 'all']), cat([C, 'all'])), (cat(['all', C]), cat(['all', 'allchar'])),
    (cat(['all', C, C]), cat(['all', C])), (cat([C, 'all', C]), cat([C, 'all'])), (cat([C, 'all', C]), cat(['all', C])),
    (cat([R, 'all', R, 'all']), cat([R, 'all'])), (cat(['all', R, 'all']), cat(['all', R, 'all'])), (cat(['all', C, 'all']), cat(['all', R, 'all'])),
    (cat([C, C]), cat(['all', C, 'all'])), (cat([C, C, C]), cat([C, 'all', C])), (cat([R, R]), cat([R, 'allchar'])),
    (cat([R, R]), cat(['allchar', 'allchar'])), (cat([C, ('star', C), C]), cat([C, 'all'])), (cat([('star', C), C]), cat(['all', C])),
    (cat(['all', C, 'all', C, 'all']), cat(['all', C, 'all'])), (cat(['all', C, 'all']), cat(['all', C, 'all', C, 'all'])),
    (cat([C, 'allchar', C]), cat(['all', C])), (cat(['allchar', C]), cat(['all', C, 'all'])), (cat([C, 'all']), cat([C, 'all', C, 'all'])),
    (('comp', R), ('comp', R)), (('comp', 'all'), R), (R, ('comp', C)), (('comp', cat(['all', C, 'all'])), ('comp', cat(['all', C, C, 'all']))),
    (('union', C, C), R), (R, ('union', R, R)), (('inter', R, R), R), (R, ('inter', R, 'allchar')), (('union', cat([C, 'all']), cat([C, C])), cat([R, 'all'])),
    (cat([('opt', C), C]), cat(['all', C])), (cat([('loop', C), 'all']), 'all'), (cat(['allchar', 'all']), cat(['all', 'allchar'])),
    (cat(['all', 'allchar']), cat(['allchar', 'all'])), (cat([C, 'all', 'allchar']), cat([C, 'allchar', 'all'])),
    (cat([R, ('plus', 'allchar')]), cat([R, 'all'])), (cat([R, 'all']), cat([R, ('plus', 'allchar')])), (cat([C, C, 'all', C]), cat([C, 'all', C, C])),
    (cat(['all', C, C]), cat(['all', C, 'all', C])), (cat([C, 'all', C, 'all', C]), cat([C, 'all', C])),
]


def pair_cost(r, s2):
    import json, os
    try:
        pc = json.load(open(os.path.join(os.path.dirname(os.path.abspath(__file__)), 'pair_costs.json')))
    except Exception:
        pc = {}
    return pc.get('%s <= %s' % (show(r), show(s2)), 0)


def pairs(tier, seed, cap):
    if tier == 'quick':
        import json, os
        try:
            pc = json.load(open(os.path.join(os.path.dirname(os.path.abspath(__file__)), 'pair_costs.json')))
        except Exception:
            pc = {}
        # quick: the curated pairs whose measured cost (CPU s, both lengths, with the union check) is below the cap
        return [(r, s2) for (r, s2) in PAIRS_CURATED if pc.get('%s <= %s' % (show(r), show(s2)), 0) <= 320]
    rnd = random.Random(seed * 31337 + 16)
    pool = []
    for n1 in (1, 2, 3):
        for xs in itertools.product(ELEMS, repeat=n1):
            pool.append(cat(xs))
    rnd.shuffle(pool)
    out = list(PAIRS_CURATED)
    for i in range(cap):
        out.append((pool[rnd.randrange(len(pool))], pool[rnd.randrange(len(pool))]))
    return out
