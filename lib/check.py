"""./check <ID> [--tier quick|thorough] | --replay <file>

Decides one property by bounded symbolic execution of the crate's compiled code (see DESIGN.md).
exit 0: every path of every instance explored, no violation outside known_findings.txt
exit 1: a natively reproduced counterexample (line `VIOLATION property=<id> replay=<path>`)
exit 2: inconclusive / broken (limit hit, unsupported IR, solver gave up, non-reproducing model, vacuous harness)
"""
import argparse
import hashlib
import json
import multiprocessing as mp
import os
import re
import shutil
import subprocess
import sys
import tempfile
import time

HERE = os.path.dirname(os.path.abspath(__file__))
sys.path.insert(0, HERE)
import build  # noqa: E402
import engine  # noqa: E402
import props  # noqa: E402

VERIF = build.VERIF
NPROC = int(os.environ.get('VERIF_JOBS', '16'))
VERBOSE = bool(os.environ.get('VERIF_VERBOSE'))
RETRIES = []

STUBS = [
    '__rust_alloc/_zeroed/realloc/dealloc: fresh object, never fails (allocation failure out of scope)',
    'core::panicking::*, unwrap_failed, expect_failed, slice index failures: path ends with outcome panic(message)',
    'RandomState::hash_one -> 0, RandomState::new -> (0,0): constant hash (legal; lookups degenerate to probing + real Eq)',
    'TLS destructor registration: no-op (single thread)',
    'verif_any_*/verif_assume/verif_assert/verif_cover/verif_param/verif_expect_panic: harness API',
]


def log(*a):
    print('[check]', *a, file=sys.stderr, flush=True)


def ll_filter(paths):
    """IR files the engine indexes: crate first, then the std crates that safe code can reach"""
    skip = ('build_script',)   # shared generics may live in any upstream crate's IR: index them all
    out = [p for p in paths if not os.path.basename(p).startswith(skip)]
    return out


def run_pool(ll_paths, jobs, budget_s):
    """index the IR once, fork workers, run all jobs.  A job that exceeds its time budget hands its unexplored
    subtrees back (as decision strings); they are re-submitted as new jobs, so one heavy instance spreads over all
    workers.  Returns one merged result per instance."""
    t0 = time.time()
    engine.load_module(ll_filter(ll_paths))
    log('indexed IR in %.1fs; %d instances on %d workers' % (time.time() - t0, len(jobs), NPROC))
    if not jobs:
        return []
    jobs = sorted(jobs, key=lambda j: -j.get('cost', 1))
    ctx = mp.get_context('fork')
    merged = {}
    order = []
    with ctx.Pool(NPROC) as pool:
        pending = []
        for i, j in enumerate(jobs):
            j = dict(j)
            j['key'] = i
            j['budget_s'] = budget_s
            order.append(i)
            pending.append((j, pool.apply_async(engine.run_instance, (j,))))
        nsub = len(pending)
        while pending:
            still = []
            progressed = False
            for j, ar in pending:
                if not ar.ready():
                    still.append((j, ar))
                    continue
                progressed = True
                r = ar.get()
                if VERBOSE:
                    log('  done %s %s dec=%d: %s paths=%d wall=%.1fs solver=%.1fs remaining=%d' % (
                        r['harness'], r['label'], len(j.get('decisions', ())), r['status'], r['npaths'], r['wall'],
                        r['solver_time'], len(r['remaining'])))
                if r.get('retried'):
                    log('  engine retried once after an internal error: %s %s: %s' % (r['harness'], r['label'], r['retried'].replace('\n', ' | ')[-700:]))
                    RETRIES.append((r['harness'], r['label']))
                if r['status'] not in ('complete', 'partial') or r['violations']:
                    log('  %s %s params=%s: %s %s viol=%d' % (r['harness'], r['label'], r['params'], r['status'],
                                                              r['reason'][:300], len(r['violations'])))
                for dec in r['remaining']:
                    j2 = dict(j)
                    j2['decisions'] = dec
                    nsub += 1
                    still.append((j2, pool.apply_async(engine.run_instance, (j2,))))
                merge_result(merged, j['key'], r)
            pending = still
            if not progressed:
                time.sleep(0.05)
    log('%d engine runs for %d instances' % (nsub, len(jobs)))
    return [merged[k] for k in order]


def merge_result(merged, key, r):
    m = merged.get(key)
    if r['status'] == 'partial':
        r['status'] = 'complete'
    if m is None:
        r['runs'] = 1
        merged[key] = r
        return
    m['runs'] += 1
    if r['status'] != 'complete':
        m['status'] = r['status']
        m['reason'] = r['reason']
    for k in ('npaths', 'instructions', 'forks', 'queries', 'solver_time', 'pending'):
        m[k] += r[k]
    m['wall'] = max(m['wall'], r['wall'])
    for k, v in r['paths'].items():
        m['paths'][k] = m['paths'].get(k, 0) + v
    for k, v in r['stats'].items():
        m['stats'][k] = m['stats'].get(k, 0) + v
    for k, v in r['assert_sites'].items():
        s = m['assert_sites'].setdefault(k, [0, 0, 0])
        for i in range(3):
            s[i] += v[i]
    for k, v in r['covers'].items():
        m['covers'][k] = m['covers'].get(k, 0) + v
    seen = set((v['kind'], v['id'], tuple(v['inputs'])) for v in m['violations'])
    for v in r['violations']:
        if (v['kind'], v['id'], tuple(v['inputs'])) not in seen and sum(1 for w in m['violations'] if (w['kind'], w['id']) == (v['kind'], v['id'])) < 3:
            m['violations'].append(v)
    m['functions'] = sorted(set(m['functions']) | set(r['functions']))
    if len(m['path_samples']) < 12:
        m['path_samples'] += r['path_samples'][:4]


def run_kani(pid):
    """second engine for the scalar modules: Kani/CBMC on the same definitional assertions (kani/src/lib.rs), against the
    same tree.  Returns dict harness -> 'SUCCESSFUL' | 'FAILED' | ..., plus wall time; {} if pid has no Kani harness."""
    if pid not in ('C15', 'C20'):
        return None
    t0 = time.time()
    work = tempfile.mkdtemp(prefix='verif-kani-')
    try:
        shutil.copytree(os.path.join(VERIF, 'kani', 'src'), os.path.join(work, 'src'))
        with open(os.path.join(work, 'Cargo.toml'), 'w') as f:
            f.write('[package]\nname = "verif-kani"\nversion = "0.1.0"\nedition = "2021"\n\n[dependencies]\n'
                    'aws-smt-strings = { path = "%s" }\n\n[workspace]\n' % build.REPO)
        lock = os.path.join(build.REPO, 'Cargo.lock')
        if os.path.exists(lock):
            shutil.copy(lock, os.path.join(work, 'Cargo.lock'))
        env = dict(os.environ)
        env['CARGO_NET_OFFLINE'] = 'true'
        env.pop('RUSTFLAGS', None)
        with build.Lock('kani'):
            try:
                r = subprocess.run(['cargo', 'kani', '--target-dir', os.path.join(build.CACHE, 'kani-target')], cwd=work, env=env,
                                   capture_output=True, text=True, timeout=900)
                out = r.stdout + r.stderr
            except subprocess.TimeoutExpired:
                return {'error': 'kani timeout', 'wall_s': round(time.time() - t0, 1), 'harnesses': {}}
        res = {}
        cur = None
        for line in out.split('\n'):
            m = re.match(r'Checking harness proofs::(\w+)', line)
            if m:
                cur = m.group(1)
            m = re.match(r'VERIFICATION:- (\w+)', line)
            if m and cur:
                res[cur] = m.group(1)
                cur = None
        pre = pid.lower() + '_'
        res = {k: v for k, v in res.items() if k.startswith(pre)}
        return {'harnesses': res, 'wall_s': round(time.time() - t0, 1), 'error': None if res else out[-800:]}
    finally:
        shutil.rmtree(work, ignore_errors=True)


def native_run(binary, harness, params, inputs, timeout=120):
    try:
        r = subprocess.run([binary, harness, ','.join(map(str, params)), ','.join(map(str, inputs))],
                           capture_output=True, text=True, timeout=timeout)
    except subprocess.TimeoutExpired:
        return ('timeout', '')
    out = r.stdout
    m = re.search(r'VERIF-ASSERT-FAIL id=(\d+)', out)
    if m:
        return ('assert', int(m.group(1)))
    m = re.search(r'VERIF-MISSING-PANIC id=(\d+)', out)
    if m:
        return ('missing-panic', int(m.group(1)))
    m = re.search(r'VERIF-PANIC expected=(\d+) (.*)', out)
    if m:
        if int(m.group(1)) != 0:
            return ('ok', 'expected panic')
        return ('panic', m.group(2)[:300])
    if 'VERIF-ASSUME-FALSE' in out:
        return ('assume-false', '')
    if 'VERIF-OK' in out:
        return ('ok', '')
    return ('crash', 'exit=%s %s %s' % (r.returncode, out[-200:], r.stderr[-300:]))


def reproduces(v, outcome):
    kind, info = outcome
    if v['kind'] == 'assert':
        return kind == 'assert' and info == v['id']
    if v['kind'] == 'panic':
        return kind in ('panic', 'crash')
    if v['kind'] == 'missing-panic':
        return kind == 'missing-panic'
    return False


def load_known():
    """known_findings.txt: lines `known: property=<id> harness=<sym> kind=<k> id=<n> [params=<glob>] :: text`"""
    path = os.path.join(VERIF, 'known_findings.txt')
    known = []
    if os.path.exists(path):
        for line in open(path):
            line = line.strip()
            if not line.startswith('known:'):
                continue
            head, _, text = line[6:].partition('::')
            kv = dict(x.split('=', 1) for x in head.split())
            known.append((kv, text.strip()))
    return known


def match_known(known, pid, v, job):
    for kv, text in known:
        if kv.get('property') != pid:
            continue
        if kv.get('harness') not in (None, '*', job['harness']):
            continue
        if kv.get('kind') not in (None, '*', v['kind']):
            continue
        if kv.get('id') not in (None, '*', str(v['id'])):
            continue
        if 'label' in kv and not re.fullmatch(kv['label'], job.get('label', '')):
            continue
        return text
    return None


def write_replay(pid, profile, job, v, outcome):
    d = os.path.join(os.environ.get('VERIF_REPLAY_DIR', os.path.join(VERIF, 'replays')), pid)
    os.makedirs(d, exist_ok=True)
    body = {'property': pid, 'harness': job['harness'], 'params': job['params'], 'label': job.get('label', ''),
            'ir_profile': profile, 'kind': v['kind'], 'id': v['id'], 'what': v['what'], 'inputs': v['inputs'],
            'native_outcome': outcome}
    h = hashlib.sha1(json.dumps([body['harness'], body['params'], body['inputs']]).encode()).hexdigest()[:10]
    path = os.path.join(d, '%s-%s.json' % (job['harness'], h))
    with open(path, 'w') as f:
        json.dump(body, f, indent=1)
    return path


def do_replay(path):
    body = json.load(open(path))
    out = tempfile.mkdtemp(prefix='verif-replay-')
    try:
        bins = build.build_native(out)
        rep = False
        for prof in ('dev', 'release'):
            oc = native_run(bins[prof], body['harness'], body['params'], body['inputs'])
            print('replay %s: %s' % (prof, oc))
            rep = rep or reproduces(body, oc)
        if rep:
            print('VIOLATION property=%s replay=%s' % (body['property'], path))
            return 1
        print('replay does not reproduce on the current tree')
        return 0
    finally:
        shutil.rmtree(out, ignore_errors=True)


def main():
    ap = argparse.ArgumentParser()
    ap.add_argument('prop', nargs='?')
    ap.add_argument('--tier', default=os.environ.get('VERIF_TIER', 'quick'))
    ap.add_argument('--replay')
    ap.add_argument('--only', help='regex on instance label (debugging; result is then not written as evidence)')
    ap.add_argument('--no-evidence', action='store_true')
    a = ap.parse_args()
    if a.replay:
        sys.exit(do_replay(a.replay))
    pid = a.prop
    tier = a.tier if a.tier in ('quick', 'thorough') else 'quick'
    seed = int(os.environ.get('VERIF_SEED', '0') or 0)
    t0 = time.time()
    spec = props.get(pid, tier, seed)     # {'jobs': [...], 'bounds': str, 'outside': [...], ...}
    jobs = spec['jobs']
    if a.only:
        jobs = [j for j in jobs if re.search(a.only, j.get('label', '') + ' ' + j['harness'])]
    out = tempfile.mkdtemp(prefix='verif-run-')
    rc = 0
    try:
        profiles = sorted(set(j.get('profile', 'dev') for j in jobs))
        # native binaries are built concurrently with the IR
        nat = mp.get_context('fork').Pool(1)
        nat_async = nat.apply_async(build.build_native, (out,))
        results = []
        for prof in profiles:
            lls = build.build_ir(prof, out)
            pj = [j for j in jobs if j.get('profile', 'dev') == prof]
            for r in run_pool(lls, pj, 12 if tier == 'quick' else 60):
                r['profile'] = prof
                results.append(r)
        bins = nat_async.get()
        nat.close()

        known = load_known()
        inconclusive = [r for r in results if r['status'] != 'complete']
        vacuous = [r for r in results if r['status'] == 'complete' and not r['covers'] and not r['paths'].get('expected-panic')
                   and not r['violations']]
        # native validation of engine paths
        validated = 0
        disagreements = []
        for r in results:
            nb = bins['release' if r['profile'] == 'rel' else 'dev']
            for vec in r['path_samples']:
                oc = native_run(nb, r['harness'], r['params'], vec)
                if oc[0] == 'ok':
                    validated += 1
                else:
                    disagreements.append((r['harness'], r['params'], vec, oc))
        # violations: replay natively
        confirmed = []
        unconfirmed = []
        for r in results:
            for v in r['violations']:
                order = ('release', 'dev') if r['profile'] == 'rel' else ('dev', 'release')
                ocs = {p: native_run(bins[p], r['harness'], r['params'], v['inputs']) for p in order}
                if any(reproduces(v, oc) for oc in ocs.values()):
                    confirmed.append((r, v, ocs))
                else:
                    unconfirmed.append((r, v, ocs))
        new_viol = []
        known_hits = {}
        for r, v, ocs in confirmed:
            t = match_known(known, pid, v, r)
            if t is not None:
                known_hits.setdefault(t, 0)
                known_hits[t] += 1
            else:
                new_viol.append((r, v, ocs))
        for t, n in known_hits.items():
            print('KNOWN-FINDING: property=%s %s (%d counterexamples reproduced natively)' % (pid, t, n))
        seen = set()
        for r, v, ocs in new_viol:
            key = (r['harness'], v['kind'], v['id'])
            if key in seen:
                continue
            seen.add(key)
            path = write_replay(pid, r['profile'], r, v, {k: list(x) for k, x in ocs.items()})
            print('VIOLATION property=%s replay=%s' % (pid, path))
            print('  %s %s label=%s params=%s inputs=%s' % (r['harness'], v['what'], r['label'], r['params'], v['inputs']))
            rc = 1
        broken = []
        kani = run_kani(pid)
        if kani is not None:
            spec['kani'] = kani
            failed = [h for h, v in kani['harnesses'].items() if v != 'SUCCESSFUL']
            log('kani: %s in %.0fs' % (kani['harnesses'], kani['wall_s']))
            if kani.get('error') or not kani['harnesses']:
                broken.append('Kani cross-check did not run: %s' % str(kani.get('error'))[:300])
            elif failed and not confirmed:
                broken.append('engines disagree: Kani reports %s FAILED while llsymex found no violation' % failed)
            elif confirmed and not failed and all(r['harness'].startswith('vh_' + pid.lower() + '_basic') or r['harness'].startswith('vh_c20_charset') for r, v, o in confirmed):
                print('note: Kani (second engine) does not reproduce the llsymex violation on its harness set')
        if inconclusive:
            broken.append('%d inconclusive instances, e.g. %s %s: %s' % (len(inconclusive), inconclusive[0]['harness'],
                                                                      inconclusive[0]['label'], inconclusive[0]['reason'][:300] + (' ... ' + inconclusive[0]['reason'][-900:].replace('\n', ' | ') if len(inconclusive[0]['reason']) > 300 else '')))
        if vacuous:
            broken.append('%d vacuous instances (no cover point reached), e.g. %s %s' % (len(vacuous), vacuous[0]['harness'], vacuous[0]['label']))
        if unconfirmed:
            r, v, ocs = unconfirmed[0]
            broken.append('%d solver models do not reproduce natively (engine/stub bug), e.g. %s %s params=%s inputs=%s -> %s' % (
                len(unconfirmed), r['harness'], v['what'], r['params'], v['inputs'], ocs))
        if disagreements:
            broken.append('%d engine paths disagree with native execution, e.g. %s' % (len(disagreements), disagreements[0],))
        if broken and rc == 0:
            rc = 2
        for b in broken:
            print('INCONCLUSIVE: ' + b)

        wall = time.time() - t0
        if not a.only and not a.no_evidence:
            write_evidence(pid, tier, seed, spec, results, validated, len(confirmed), len(new_viol), known_hits, broken, wall)
        tot_paths = sum(r['npaths'] for r in results)
        print('%s %s: %d instances, %d paths, %d LLVM instructions, %d assertion queries proved, %d violations (%d known), '
              '%d native path replays agree, %.1fs' % (
                  pid, tier, len(results), tot_paths, sum(r['instructions'] for r in results),
                  sum(r['stats'].get('assert_unsat', 0) for r in results), len(confirmed), len(confirmed) - len(new_viol),
                  validated, wall))
    except build.BuildError as e:
        print('INCONCLUSIVE: build failed: %s' % e)
        rc = 2
    finally:
        shutil.rmtree(out, ignore_errors=True)
    sys.exit(rc)


def write_evidence(pid, tier, seed, spec, results, validated, nconfirmed, nnew, known_hits, broken, wall):
    funcs = {}
    for r in results:
        for f in r['functions']:
            funcs[f] = funcs.get(f, 0) + 1
    crate_funcs = sorted(f for f in funcs if 'verif' not in f and 'vapi' not in f)
    nontrivial = sum(1 for r in results if r['npaths'] >= 2 and r['stats'].get('assert_unsat', 0) >= 1)
    samples = []
    for r in results[:400]:
        if len(samples) >= 12:
            break
        if r['path_samples']:
            samples.append({'harness': r['harness'], 'label': r['label'], 'params': r['params'], 'profile': r['profile'],
                            'paths': r['npaths'], 'instructions': r['instructions'],
                            'one_path_input_vector': r['path_samples'][0]})
    if not samples:
        samples = [{'harness': r['harness'], 'label': r['label'], 'params': r['params']} for r in results[:3]] or ['no instance ran']
    sites = {}
    for r in results:
        for k, v in r['assert_sites'].items():
            s = sites.setdefault(r['harness'] + '#' + k, [0, 0, 0])
            for i in range(3):
                s[i] += v[i]
    ev = {
        'property_id': pid, 'tier': tier, 'seed': seed, 'level': 'model_checking',
        'coverage': {
            'states': max(1, sum(r['npaths'] for r in results)) if results else 0,
            'transitions': sum(r['forks'] + r['instructions'] for r in results),
            'traces_validated_against_impl': validated,
            'samples': samples,
            'evaluations': len(results),
            'distinct_nontrivial': nontrivial,
            'rule': 'one evaluation = one harness instance (harness symbol + concrete size/shape parameters) explored on every '
                    'feasible path; non-trivial = at least 2 feasible paths and at least 1 assertion query proved unsat by the solver; '
                    'instances are distinct by (harness, params, profile)',
            'exhaustive': not broken,
            'paths_feasible': sum(r['npaths'] for r in results),
            'forks': sum(r['forks'] for r in results),
            'llvm_instructions_executed': sum(r['instructions'] for r in results),
            'solver_queries': sum(r['queries'] for r in results),
            'solver_queries_z3': sum(r['stats'].get('z3_queries', 0) for r in results),
            'solver_queries_cvc5': sum(r['stats'].get('cvc5_queries', 0) for r in results),
            'solver_time_s': round(sum(r['solver_time'] for r in results), 2),
            'assertion_queries_proved_unsat': sum(r['stats'].get('assert_unsat', 0) for r in results),
            'assertions_concretely_true': sum(r['stats'].get('assert_concrete', 0) for r in results),
            'assertion_sites': sites,
            'limits_hit': len([r for r in results if r['status'] != 'complete']),
            'bounds': spec.get('bounds', ''),
            'outside_the_claim': spec.get('outside', []),
            'functions_encoded_count': len(crate_funcs),
            'functions_encoded': crate_funcs[:400],
            'source_digest': build.source_digest(),
            'ir_profiles': sorted(set(r['profile'] for r in results)),
            'counterexamples_reproduced_natively': nconfirmed,
            'known_findings_hit': known_hits,
            'broken': broken,
            'second_engine_kani': spec.get('kani'),
            'engine_internal_errors_retried': len(RETRIES),
            'stubs_in_force': STUBS,
            'explanation': 'bounded symbolic execution (llsymex) of rustc-emitted LLVM IR of the crate + std; verdict per assertion by z3/cvc5',
        },
        'assumptions': STUBS + spec.get('assumptions', []) + [
            'LLVM IR taken at opt-level 0; dev = overflow-checks+debug-assertions on, rel = both off',
            'engine (llsymex) trusted up to its validation: native replay of engine paths and of every counterexample',
        ],
        'wall_s': round(wall, 2),
        'violations': nnew,
    }
    d = os.path.join(VERIF, 'evidence')
    os.makedirs(d, exist_ok=True)
    with open(os.path.join(d, pid + '.json'), 'w') as f:
        json.dump(ev, f, indent=1)


if __name__ == '__main__':
    main()
