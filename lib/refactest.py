"""refactest.py <name> <patch.diff> <checks comma list>

False-alarm test: applies a behaviour-preserving refactoring (written by an independent sub-agent) to a scratch worktree,
confirms the unedited test suite passes, and runs the given quick checks against the patched tree.  Every check must
exit 0; a VIOLATION or an inconclusive result (exit 2) is a false alarm / a harness that depends on internals.
Result: /verif/refactorings/<name>/{patch.diff, meta.json}."""
import json, os, re, shutil, subprocess, sys, time
VERIF = os.path.dirname(os.path.dirname(os.path.abspath(__file__)))


def sh(cmd, cwd=None, env=None, timeout=7200):
    e = dict(os.environ); e['CARGO_NET_OFFLINE'] = 'true'
    if env: e.update(env)
    r = subprocess.run(cmd, shell=True, cwd=cwd, env=e, capture_output=True, text=True, timeout=timeout)
    return r.returncode, r.stdout + r.stderr


def main():
    name, patch, checks = sys.argv[1], sys.argv[2], sys.argv[3].split(',')
    wt = '/tmp/rfv-%s-%d' % (name, os.getpid())
    sh('git -C /repo worktree add -q --detach %s HEAD' % wt)
    meta = {'name': name, 'repo_head': sh('git -C /repo rev-parse --short HEAD')[1].strip(), 'checks': {}}
    try:
        rc, out = sh('git apply %s' % patch, cwd=wt)
        if rc != 0:
            meta['error'] = 'patch does not apply: ' + out[-400:]
        else:
            rc, out = sh('cargo test --offline', cwd=wt, env={'CARGO_TARGET_DIR': wt + '/target'})
            res = re.findall(r'test result: (\w+)\. (\d+) passed; (\d+) failed', out)
            meta['suite_with_patch'] = res
            if not (rc == 0 and len(res) >= 2 and all(r[0] == 'ok' for r in res)):
                meta['error'] = 'test suite fails with the patch'
            else:
                shutil.rmtree(wt + '/target', ignore_errors=True)
                for c in checks:
                    t0 = time.time()
                    rc, out = sh('%s/check %s --tier quick --no-evidence' % (VERIF, c), cwd=VERIF,
                                 env={'VERIF_REPO': wt, 'VERIF_REPLAY_DIR': '/tmp/refac-replays'})
                    lines = [l for l in out.split('\n') if l.startswith(('VIOLATION', 'INCONCLUSIVE', 'KNOWN', '  vh_'))]
                    meta['checks'][c] = {'exit': rc, 'wall_s': round(time.time() - t0, 1), 'lines': lines[:6]}
        meta['false_alarms'] = [c for c, v in meta['checks'].items() if v['exit'] != 0]
        d = os.path.join(VERIF, 'refactorings', name)
        os.makedirs(d, exist_ok=True)
        shutil.copy(patch, os.path.join(d, 'patch.diff'))
        json.dump(meta, open(os.path.join(d, 'meta.json'), 'w'), indent=1)
        print(json.dumps({k: meta.get(k) for k in ('name', 'error', 'suite_with_patch', 'false_alarms')}))
        for c, v in meta['checks'].items():
            print(' ', c, 'exit', v['exit'], v['wall_s'], 's', v['lines'][:2])
    finally:
        sh('git -C /repo worktree remove --force %s' % wt)
        shutil.rmtree(wt, ignore_errors=True)


if __name__ == '__main__':
    main()
