"""llsymex: KLEE-style symbolic executor for rustc-emitted LLVM IR (-O0), z3 + cvc5 back ends.

Values are python ints (concrete) or z3 terms (symbolic).  Every feasible side of every symbolic
branch is followed (DFS); `verif_assert` issues a solver query for a falsifying input on the
current path.  Anything the engine does not implement raises Unsupported -> the instance is
*inconclusive*, never a pass.
"""
import sys, time, bisect, re, os, subprocess, tempfile
import z3
from llparse import Module, PTR, VOID

STACK_BASE = 0x7000_0000_0000
DEBUG = bool(os.environ.get('VERIF_DEBUG'))

sys.setrecursionlimit(10000)


def is_sym(v):
    return isinstance(v, z3.ExprRef)


def mask(n):
    return (1 << n) - 1


def to_signed(v, n):
    return v - (1 << n) if v >> (n - 1) else v


def bvv(v, n):
    if is_sym(v):
        if z3.is_bool(v):
            return z3.If(v, z3.BitVecVal(1, n), z3.BitVecVal(0, n))
        return v
    return z3.BitVecVal(v, n)


def boolv(v):
    """i1 value -> z3 Bool or python bool"""
    if is_sym(v):
        if z3.is_bool(v):
            return v
        return v == z3.BitVecVal(1, v.size())
    return bool(v & 1)


class Panic(Exception):
    def __init__(self, msg):
        self.msg = msg


class Unsupported(Exception):
    pass


class Inconclusive(Exception):
    """a global limit was hit or a solver gave up: the run proves nothing"""
    pass


class PathEnd(Exception):
    def __init__(self, kind, msg=''):
        self.kind = kind
        self.msg = msg


class Cvc5Proc:
    """one cvc5 process kept alive per worker (process start-up, not solving, dominates small queries)"""

    def __init__(self):
        self.p = None

    def start(self, tlimit_ms):
        self.p = subprocess.Popen(['cvc5', '--lang', 'smt2', '--incremental', '--produce-models', '--solve-bv-as-int=sum',
                                   '--tlimit-per=%d' % tlimit_ms], stdin=subprocess.PIPE, stdout=subprocess.PIPE,
                                  stderr=subprocess.STDOUT, text=True, bufsize=1)
        self.tlimit = tlimit_ms
        self.p.stdin.write('(set-logic ALL)\n')

    def kill(self):
        if self.p is not None:
            try:
                self.p.kill()
                self.p.wait()
            except Exception:
                pass
            self.p = None

    def readline(self, timeout_s):
        import select
        r, _, _ = select.select([self.p.stdout], [], [], timeout_s)
        if not r:
            return None
        return self.p.stdout.readline()

    def read_sexpr(self, timeout_s):
        buf = ''
        depth = 0
        started = False
        while True:
            line = self.readline(timeout_s)
            if not line:
                return None
            buf += line
            for ch in line:
                if ch == '(':
                    depth += 1
                    started = True
                elif ch == ')':
                    depth -= 1
            if started and depth <= 0:
                return buf

    def solve(self, body, names, timeout_s):
        """returns ('unsat', None) | ('sat', {name: int}) | None"""
        tl = int(timeout_s * 1000)
        if self.p is None or self.p.poll() is not None or self.tlimit != tl:
            self.kill()
            self.start(tl)
        try:
            self.p.stdin.write('(push 1)\n' + body + '\n(check-sat)\n')
            self.p.stdin.flush()
            line = self.readline(timeout_s + 5)
            if line is None:
                self.kill()
                return None
            ans = line.strip()
            if ans == 'unsat':
                self.p.stdin.write('(pop 1)\n')
                self.p.stdin.flush()
                return ('unsat', None)
            if ans != 'sat':
                if DEBUG:
                    print('CVC5-NOANSWER', ans[:300], file=sys.stderr)
                self.kill()   # unknown / error: restart to get back to a clean state
                return None
            vals = {}
            if names:
                self.p.stdin.write('(get-value (%s))\n' % ' '.join(names))
                self.p.stdin.flush()
                out = self.read_sexpr(20)
                if out is None or '(error' in out:
                    self.kill()
                    return None
                vals = dict(re.findall(r'\(\|?([^\s|()]+)\|?\s+(#[xb][0-9a-fA-F]+)\)', out))
            self.p.stdin.write('(pop 1)\n')
            self.p.stdin.flush()
            return ('sat', {k: int(v[2:], 16 if v[1] == 'x' else 2) for k, v in vals.items()})
        except (BrokenPipeError, OSError):
            self.kill()
            return None


_CVC5 = Cvc5Proc()


def cvc5_solve(smt2_text, inputs, timeout_s):
    """ask the resident cvc5 (int-blasting) about an SMT-LIB text produced by z3's printer;
    returns ('unsat', None) | ('sat', [(var, int)...]) | None (no answer)"""
    lines = [l for l in smt2_text.split('\n')
             if l and not l.startswith(';') and not l.startswith('(set-info') and not l.startswith('(set-logic')
             and l.strip() != '(check-sat)']
    body = '\n'.join(lines)
    names = [v.decl().name() for v in inputs]
    present = [(v, n) for v, n in zip(inputs, names) if re.search(r'\(declare-fun \|?%s\|? ' % re.escape(n), body)]
    res = _CVC5.solve(body, [n for _, n in present], timeout_s)
    if res is None:
        return None
    if res[0] == 'unsat':
        return res
    vals = res[1]
    out = []
    for v, n in zip(inputs, names):
        if (v, n) in present:
            if n not in vals:
                return None
            out.append((v, vals[n]))
        else:
            out.append((v, 0))
    return ('sat', out)


class Obj:
    __slots__ = ('base', 'size', 'cells', 'fill', 'ro', 'owner', 'name', 'freed')

    def __init__(self, base, size, name='', fill=None, ro=False, owner=0):
        self.base = base
        self.size = size
        self.cells = {}
        self.fill = fill
        self.ro = ro
        self.owner = owner
        self.name = name
        self.freed = False

    def clone(self, owner):
        o = Obj(self.base, self.size, self.name, self.fill, self.ro, owner)
        o.cells = dict(self.cells)
        o.freed = self.freed
        return o


class Frame:
    __slots__ = ('func', 'block', 'idx', 'locals', 'prev', 'dst', 'allocas', 'sp', 'nsb')

    def __init__(self, func, dst, sp=STACK_BASE, nsb=0):
        self.func = func
        self.block = func.order[0]
        self.idx = 0
        self.locals = {}
        self.prev = None
        self.dst = dst
        self.allocas = []
        self.sp = sp      # stack pointer at entry
        self.nsb = nsb    # len(st.sbases) at entry

    def clone(self):
        f = Frame.__new__(Frame)
        f.func = self.func
        f.block = self.block
        f.idx = self.idx
        f.locals = dict(self.locals)
        f.prev = self.prev
        f.dst = self.dst
        f.allocas = list(self.allocas)
        f.sp = self.sp
        f.nsb = self.nsb
        return f


class State:
    _next = [1]

    def __init__(self):
        self.id = State._next[0]
        State._next[0] += 1
        self.frames = []
        self.mem = {}
        self.bases = []       # heap object bases (sorted, append-only)
        self.sbases = []      # stack object bases (sorted; truncated on return)
        self.brk = 0x10000000
        self.sbrk = STACK_BASE
        self.pc = []
        self.model = None
        self.inputs = []      # z3 vars (or concrete ints in concrete mode)
        self.nins = 0
        self.asserts = 0
        self.expect_panic = 0
        self.notes = []
        self.pending = []     # deferred assertion conditions (cond, id, what)
        self.lo = None        # last object accessed (lookup cache)
        self.dec = ()         # decisions taken at the forks on this path (for re-execution / work splitting)

    def fork(self):
        s = State()
        # all existing objects become shared: neither side may write in place
        self.id = State._next[0]
        State._next[0] += 1
        s.frames = [f.clone() for f in self.frames]
        s.mem = dict(self.mem)
        s.bases = list(self.bases)
        s.sbases = list(self.sbases)
        s.brk = self.brk
        s.sbrk = self.sbrk
        s.pc = list(self.pc)
        s.model = self.model
        s.inputs = list(self.inputs)
        s.nins = 0
        s.asserts = self.asserts
        s.expect_panic = self.expect_panic
        s.notes = list(self.notes)
        s.pending = list(self.pending)
        s.lo = None
        self.lo = None
        s.dec = self.dec
        return s


class Engine:
    def __init__(self, mod, config=None):
        self.mod = mod
        self.tc = mod.tc
        self.config = config or {}
        self.fn_addr = {}       # key -> addr
        self.addr_fn = {}
        self.next_fn_addr = 0x1000
        self.gaddr = {}         # global key -> base addr (initial image)
        self.gobjs = {}         # base -> Obj  (initial image, shared, never written in place)
        self.gbases = []
        self.gbrk = 0x100000
        self.intercepts = []
        self.icache = {}
        self.setup_intercepts()
        self.reset()

    def reset(self, params=(), limits=None, concrete_inputs=None):
        """forget everything that belongs to one harness instance"""
        lim = {'max_paths': 20000, 'max_instr_path': 400_000_000, 'max_instr_total': 4_000_000_000, 'max_depth': 600,
               'timeout_s': 3600, 'branch_timeout_ms': 2000, 'assert_timeout_ms': 1000, 'fallback_timeout_s': 120,
               'max_addr_values': 256}
        if limits:
            lim.update(limits)
        self.limits = lim
        self.params = list(params)
        self.concrete_inputs = concrete_inputs
        self.forced = ()
        self.budget_s = None
        self.solver = z3.Solver()
        self.solver.set('timeout', lim['branch_timeout_ms'])
        self.spc = []
        self.z3_streak = 0
        self.fast_fail = False
        self.qhist = []
        self.nqueries = 0
        self.solver_time = 0.0
        self.funcs_seen = {}
        self.violations = []
        self.sym_counter = 0
        self.stats = {'forks': 0, 'assert_queries': 0, 'assert_unsat': 0, 'assert_concrete': 0, 'z3_queries': 0,
                      'cvc5_queries': 0, 'z3_time': 0.0, 'cvc5_time': 0.0, 'sym_loads': 0, 'sym_stores': 0}
        self.assert_sites = {}   # id -> [evaluated, proved(unsat or concretely true), violated]
        self.covers = {}
        self.path_samples = []   # input vectors (solver models) of completed paths, replayed natively by the driver
        self.sample_cap = lim.get('sample_paths', 6)
        self.t_start = time.time()
        self.total_ins = 0

    # ------------------------------------------------------------------ solver
    def sync(self, st):
        spc = self.spc
        pc = st.pc
        k = 0
        n = min(len(spc), len(pc))
        while k < n and spc[k] is pc[k]:
            k += 1
        for _ in range(len(spc) - k):
            self.solver.pop()
        del spc[k:]
        for c in pc[k:]:
            self.solver.push()
            self.solver.add(c)
            spc.append(c)

    def check(self, st, extra=None):
        """feasibility of pc (+extra) with the incremental solver; falls back to the portfolio on unknown"""
        self.nqueries += 1
        self.stats['z3_queries'] += 1
        t0 = time.time()
        self.sync(st)
        if extra is not None:
            self.solver.push()
            self.solver.add(extra)
            r = self.solver.check()
            m = self.solver.model() if r == z3.sat else None
            self.solver.pop()
        else:
            r = self.solver.check()
            m = self.solver.model() if r == z3.sat else None
        dt_ = time.time() - t0
        self.solver_time += dt_
        self.stats['z3_time'] += dt_
        self.qhist.append(dt_)
        if DEBUG and dt_ > 0.5:
            print('SLOW-BRANCH %.2fs pc=%d r=%s' % (dt_, len(st.pc), r), file=sys.stderr, flush=True)
        if r == z3.unknown:
            # z3 bit-blasting is stuck on this kind of query: give it less time from now on, cvc5 (int-blasting) takes over
            if not self.fast_fail:
                self.fast_fail = True
                self.solver.set('timeout', 300)
            return self.portfolio(st, extra, skip_z3=True)
        return m

    def check_oneshot(self, st, extra):
        """assertion query: the incremental z3 solver first (the path condition is already asserted and bit-blasted
        there), then cvc5 (int-blasting), then z3 int-blasting"""
        if self.z3_streak >= 2:
            return self.portfolio(st, extra, skip_z3=True)
        self.nqueries += 1
        self.stats['z3_queries'] += 1
        t0 = time.time()
        self.sync(st)
        self.solver.push()
        self.solver.add(extra)
        r = self.solver.check()
        m = self.solver.model() if r == z3.sat else None
        self.solver.pop()
        dt_ = time.time() - t0
        self.solver_time += dt_
        self.stats['z3_time'] += dt_
        self.qhist.append(dt_)
        if r == z3.unknown:
            self.z3_streak += 1
            return self.portfolio(st, extra, skip_z3=True)
        self.z3_streak = 0
        return m

    def portfolio(self, st, extra, skip_z3):
        lim = self.limits
        cs = list(st.pc) + ([extra] if extra is not None else [])
        # adaptive order: when z3 keeps timing out on this instance's assertion queries, ask cvc5 first
        if not skip_z3 and self.z3_streak >= 2:
            skip_z3 = True
        if not skip_z3:
            self.nqueries += 1
            self.stats['z3_queries'] += 1
            t0 = time.time()
            s = z3.Solver()
            s.set('timeout', lim['assert_timeout_ms'])
            s.add(*cs)
            r = s.check()
            dt_ = time.time() - t0
            self.solver_time += dt_
            self.stats['z3_time'] += dt_
            self.qhist.append(dt_)
            if r == z3.sat:
                self.z3_streak = 0
                return s.model()
            if r == z3.unsat:
                self.z3_streak = 0
                return None
            self.z3_streak += 1
        # cvc5, int-blasting that keeps mod 2^k semantics
        self.nqueries += 1
        self.stats['cvc5_queries'] += 1
        t0 = time.time()
        s = z3.Solver()
        s.add(*cs)
        txt = s.to_smt2()
        res = cvc5_solve(txt, [v for v in st.inputs if is_sym(v)], lim['fallback_timeout_s'])
        dt_ = time.time() - t0
        self.solver_time += dt_
        self.stats['cvc5_time'] += dt_
        self.qhist.append(dt_)
        if DEBUG:
            print('CVC5 %.2fs pc=%d -> %s' % (dt_, len(st.pc), res[0] if res else None), file=sys.stderr, flush=True)
        if res is not None:
            status, vals = res
            if status == 'unsat':
                return None
            # turn the cvc5 assignment into a z3 model by re-solving with the inputs pinned (cheap, validates it too)
            s2 = z3.Solver()
            s2.set('timeout', 20000)
            s2.add(*cs)
            for v, x in vals:
                s2.add(v == z3.BitVecVal(x, v.size()))
            r = s2.check()
            if r == z3.sat:
                return s2.model()
            raise Inconclusive('cvc5 model rejected by z3 (%s)' % r)
        # last resort: z3's own int-blasting
        t0 = time.time()
        s = z3.Solver()
        s.set('smt.bv.solver', 2)
        s.set('timeout', int(lim['fallback_timeout_s'] * 1000))
        s.add(*cs)
        r = s.check()
        dt_ = time.time() - t0
        self.solver_time += dt_
        self.stats['z3_time'] += dt_
        if r == z3.sat:
            return s.model()
        if r == z3.unsat:
            return None
        raise Inconclusive('no solver answered within the cap (pc=%d)' % len(st.pc))

    def feasible_both(self, st, cond):
        """returns (model_if_true or None, model_if_false or None)"""
        mt = mf = None
        if st.model is not None:
            v = st.model.eval(cond, model_completion=True)
            if z3.is_true(v):
                mt = st.model
            elif z3.is_false(v):
                mf = st.model
        if mt is None:
            mt = self.check(st, cond)
        if mf is None:
            mf = self.check(st, z3.Not(cond))
        return mt, mf

    # ------------------------------------------------------------------ memory
    def alloc(self, st, size, align=16, name='', fill=None):
        align = max(align, 1)
        base = (st.brk + align - 1) // align * align
        st.brk = base + max(size, 1) + 16
        o = Obj(base, size, name, fill, False, st.id)
        st.mem[base] = o
        st.bases.append(base)
        return base

    def alloc_stack(self, st, size, align=16, name=''):
        align = max(align, 1)
        base = (st.sbrk + align - 1) // align * align
        st.sbrk = base + max(size, 1) + 16
        o = Obj(base, size, name, None, False, st.id)
        st.mem[base] = o
        st.sbases.append(base)
        return base

    def find_obj(self, st, addr, write=False):
        o = st.lo
        if o is not None and o.base <= addr < o.base + o.size and not o.freed and (not write or (o.owner == st.id and not o.ro)):
            return o
        o = None
        if addr >= STACK_BASE:
            bases = st.sbases
            i = bisect.bisect_right(bases, addr) - 1
            if i >= 0:
                o = st.mem.get(bases[i])
        elif addr >= 0x10000000:
            bases = st.bases
            i = bisect.bisect_right(bases, addr) - 1
            if i >= 0:
                o = st.mem.get(bases[i])
        else:
            j = bisect.bisect_right(self.gbases, addr) - 1
            if j >= 0:
                b = self.gbases[j]
                o = st.mem.get(b) or self.gobjs[b]
        if o is not None and addr > o.base + o.size:
            o = None
        if o is None:
            raise Panic('memory access to unmapped address 0x%x' % addr)
        if o.freed:
            raise Panic('use after free 0x%x (%s)' % (addr, o.name))
        if write:
            if o.ro:
                raise Panic('write to read-only object %s' % o.name)
            if o.owner != st.id:
                o = o.clone(st.id)
                st.mem[o.base] = o
        st.lo = o
        return o

    def conc_addr(self, st, addr, what):
        if is_sym(addr):
            addr = z3.simplify(addr)
            if z3.is_bv_value(addr):
                return addr.as_long()
            raise SymAddr(addr)
        return addr

    def get_byte(self, o, off):
        cells = o.cells
        for d in range(0, 17):
            c = cells.get(off - d)
            if c is not None:
                n, v = c
                if d < n:
                    if n == 1:
                        return v
                    if v is None:
                        return None
                    if is_sym(v):
                        if z3.is_bool(v):
                            v = bvv(v, 8 * n)
                        return z3.Extract(8 * d + 7, 8 * d, v)
                    return (v >> (8 * d)) & 0xff
                if d == 0:
                    break
        return o.fill

    def load_int(self, st, addr, nbytes):
        o = self.find_obj(st, addr)
        off = addr - o.base
        if off + nbytes > o.size:
            raise Panic('out-of-bounds load %s+%d size %d' % (o.name, off, nbytes))
        c = o.cells.get(off)
        if c is not None and c[0] == nbytes:
            return c[1]
        # assemble
        bs = [self.get_byte(o, off + i) for i in range(nbytes)]
        if all(b is None for b in bs):
            return None
        if any(b is None for b in bs):
            # partially undefined: fresh bits for undefined bytes
            bs = [self.fresh(8, 'undef') if b is None else b for b in bs]
        if all(not is_sym(b) for b in bs):
            v = 0
            for i, b in enumerate(bs):
                v |= b << (8 * i)
            return v
        v = z3.Concat(*[bvv(b, 8) for b in reversed(bs)]) if nbytes > 1 else bvv(bs[0], 8)
        return z3.simplify(v)

    def kill_range(self, o, off, n):
        cells = o.cells
        if not cells:
            return
        c = cells.get(off)
        if c is not None and c[0] == n:
            # same slot re-written: cells never overlap, so nothing else intersects [off, off+n)
            del cells[off]
            return
        # split any cell overlapping [off, off+n)
        for start in range(off - 16, off + n):
            c = cells.get(start)
            if c is None:
                continue
            cn, cv = c
            if start + cn <= off or start >= off + n:
                continue
            if start >= off and start + cn <= off + n:
                del cells[start]
                continue
            # partial overlap: explode to bytes outside the range
            del cells[start]
            for d in range(cn):
                p = start + d
                if off <= p < off + n:
                    continue
                if cv is None:
                    b = None
                elif is_sym(cv):
                    b = z3.simplify(z3.Extract(8 * d + 7, 8 * d, bvv(cv, 8 * cn)))
                else:
                    b = (cv >> (8 * d)) & 0xff
                cells[p] = (1, b)

    def store_int(self, st, addr, nbytes, v):
        o = self.find_obj(st, addr, write=True)
        off = addr - o.base
        if off + nbytes > o.size:
            raise Panic('out-of-bounds store %s+%d size %d' % (o.name, off, nbytes))
        c = o.cells.get(off)
        if c is None or c[0] != nbytes or True:
            self.kill_range(o, off, nbytes)
        if nbytes > 16:
            raise Unsupported('wide store')
        o.cells[off] = (nbytes, v)

    def memcpy(self, st, dst, src, n):
        if n == 0:
            return
        so = self.find_obj(st, src)
        soff = src - so.base
        if soff + n > so.size:
            raise Panic('memcpy src OOB %s' % so.name)
        # snapshot source cells
        items = []
        covered = [False] * n
        for start, (cn, cv) in so.cells.items():
            if start >= soff and start + cn <= soff + n:
                items.append((start - soff, cn, cv))
                for k in range(start - soff, start - soff + cn):
                    covered[k] = True
        extra = []
        for k in range(n):
            if not covered[k]:
                b = self.get_byte(so, soff + k)
                if b is not None or so.fill is not None:
                    extra.append((k, 1, b))
        do = self.find_obj(st, dst, write=True)
        doff = dst - do.base
        if doff + n > do.size:
            raise Panic('memcpy dst OOB %s' % do.name)
        self.kill_range(do, doff, n)
        if do.fill is not None:
            # explicit undefined bytes must overwrite fill
            for k in range(n):
                if not covered[k]:
                    do.cells[doff + k] = (1, None)
        for (k, cn, cv) in items:
            do.cells[doff + k] = (cn, cv)
        for (k, cn, cv) in extra:
            do.cells[doff + k] = (cn, cv)

    def memset(self, st, dst, val, n):
        if n == 0:
            return
        do = self.find_obj(st, dst, write=True)
        doff = dst - do.base
        if doff + n > do.size:
            raise Panic('memset OOB')
        if doff == 0 and n == do.size and not is_sym(val):
            do.cells = {}
            do.fill = val
            return
        self.kill_range(do, doff, n)
        for k in range(n):
            do.cells[doff + k] = (1, val)

    # typed load/store
    def load(self, st, t, addr):
        k = t[0]
        if k == 'i':
            n = t[1]
            v = self.load_int(st, addr, (n + 7) // 8)
            if v is None:
                return None
            if n == 1:
                if is_sym(v):
                    return z3.Extract(0, 0, v) == 1 if not z3.is_bool(v) else v
                return v & 1
            if n % 8:
                if is_sym(v):
                    return z3.Extract(n - 1, 0, v)
                return v & mask(n)
            return v
        if k == 'ptr':
            return self.load_int(st, addr, 8)
        if k == 'struct':
            offs = self.tc.layout(t)[2]
            return [self.load(st, ft, addr + o) for ft, o in zip(t[1], offs)]
        if k == 'arr' or k == 'vec':
            es = self.tc.sizeof(t[2])
            return [self.load(st, t[2], addr + i * es) for i in range(t[1])]
        if k == 'f':
            return self.load_int(st, addr, t[1] // 8)
        raise Unsupported('load %r' % (t,))

    def store(self, st, t, v, addr):
        k = t[0]
        if k == 'i':
            n = t[1]
            nb = (n + 7) // 8
            if v is not None and is_sym(v):
                if z3.is_bool(v):
                    v = bvv(v, 8 * nb)
                elif v.size() != 8 * nb:
                    v = z3.ZeroExt(8 * nb - v.size(), v)
            self.store_int(st, addr, nb, v)
        elif k == 'ptr':
            self.store_int(st, addr, 8, v)
        elif k == 'struct':
            offs = self.tc.layout(t)[2]
            if v is None:
                v = [None] * len(t[1])
            for ft, o, fv in zip(t[1], offs, v):
                self.store(st, ft, fv, addr + o)
        elif k == 'arr' or k == 'vec':
            es = self.tc.sizeof(t[2])
            if v is None:
                v = [None] * t[1]
            for i in range(t[1]):
                self.store(st, t[2], v[i], addr + i * es)
        elif k == 'f':
            self.store_int(st, addr, t[1] // 8, v)
        else:
            raise Unsupported('store %r' % (t,))

    # ------------------------------------------------------------------ globals
    def global_addr(self, name, fi):
        mod = self.mod
        key = (fi, name) if (fi, name) in mod.gdefs else name
        a = self.gaddr.get(key)
        if a is not None:
            return a
        if key in mod.gdefs:
            return self.materialize_global(key)
        # function?
        fk = mod.find_func(name, fi)
        if fk is None:
            fk = ('decl', name)
        a = self.fn_addr.get(fk)
        if a is None:
            a = self.next_fn_addr
            self.next_fn_addr += 16
            self.fn_addr[fk] = a
            self.addr_fn[a] = fk
        return a

    def materialize_global(self, key):
        from llparse import tokenize, P
        mod = self.mod
        fi, ln = mod.gdefs[key]
        line = mod.lines[fi][ln]
        toks = tokenize(line)
        p = P(toks, self.tc)
        name = p.next()[1]
        p.expect('=')
        ro = False
        while True:
            k, v = p.peek()
            if v in ('constant', 'global'):
                ro = (v == 'constant')
                p.next()
                break
            p.next()
            if v == 'thread_local' and p.peek()[1] == '(':
                while p.next()[1] != ')':
                    pass
        t = p.parse_type()
        size = self.tc.sizeof(t)
        align = 16
        base = (self.gbrk + align - 1) // align * align
        self.gbrk = base + max(size, 1) + 16
        o = Obj(base, size, name, None, ro, 0)
        self.gaddr[key] = base
        self.gobjs[base] = o
        bisect.insort(self.gbases, base)
        if p.at_end() or p.peek()[1] == ',':
            o.fill = 0
        else:
            init = p.parse_value(t)
            self.init_const(o, 0, t, init, fi)
        return base

    def init_const(self, o, off, t, c, fi):
        kind = c[0]
        if kind == 'zero':
            n = self.tc.sizeof(t)
            if off == 0 and n == o.size:
                o.fill = 0
            else:
                for k in range(n):
                    o.cells[off + k] = (1, 0)
        elif kind == 'undef':
            pass
        elif kind == 'bytes':
            for k, b in enumerate(c[1]):
                o.cells[off + k] = (1, b)
        elif kind == 'agg':
            if t[0] == 'struct':
                offs = self.tc.layout(t)[2]
                for (tv, fo) in zip(c[1], offs):
                    self.init_const(o, off + fo, tv[1], tv[2], fi)
            else:
                es = self.tc.sizeof(t[2])
                for i, tv in enumerate(c[1]):
                    self.init_const(o, off + i * es, tv[1], tv[2], fi)
        else:
            v = self.const_value(t, c, fi)
            n = self.tc.sizeof(t)
            o.cells[off] = (n, v)

    def const_value(self, t, c, fi):
        kind = c[0]
        if kind == 'c':
            return c[1]
        if kind == 'g':
            return self.global_addr(c[1], fi)
        if kind == 'undef':
            return None
        if kind == 'zero':
            return self.zero_value(t)
        if kind == 'cgep':
            bt, args = c[1], c[2]
            base = self.const_value(args[0][0], args[0][1], fi)
            idx = [(it, self.const_value(it, iv, fi)) for it, iv in args[1:]]
            return self.gep(bt, base, idx)
        if kind == 'ccast':
            op, (st_, sv), tt = c[1], c[2], c[3]
            v = self.const_value(st_, sv, fi)
            return self.do_cast(op, st_, v, tt)
        if kind == 'cbin':
            op, (ta, a), (tb, b) = c[1], c[2], c[3]
            return self.binop(op, ta, self.const_value(ta, a, fi), self.const_value(tb, b, fi))
        if kind == 'agg':
            return [self.const_value(tv[1], tv[2], fi) for tv in c[1]]
        if kind == 'bytes':
            return list(c[1])
        if kind == 'cf':
            return ('float', c[1])
        raise Unsupported('const %r' % (c,))

    def zero_value(self, t):
        k = t[0]
        if k in ('i', 'ptr', 'f'):
            return 0
        if k == 'struct':
            return [self.zero_value(x) for x in t[1]]
        if k in ('arr', 'vec'):
            return [self.zero_value(t[2]) for _ in range(t[1])]
        raise Unsupported('zero %r' % (t,))

    # ------------------------------------------------------------------ arithmetic
    def gep(self, bt, base, idx):
        tc = self.tc
        t = bt
        addr = base
        first = True
        for it, iv in idx:
            if first:
                sz = tc.sizeof(t)
                first = False
            else:
                if t[0] == 'struct':
                    addr = self.add64(addr, tc.field_offset(t, iv))
                    t = t[1][iv]
                    continue
                t = t[2]
                sz = tc.sizeof(t)
            if is_sym(iv):
                w = iv.size()
                if w < 64:
                    iv = z3.SignExt(64 - w, iv)
                addr = bvv(addr, 64) + iv * sz
            else:
                w = it[1]
                addr = self.add64(addr, to_signed(iv, w) * sz)
        return addr

    def add64(self, a, b):
        if is_sym(a):
            return a + z3.BitVecVal(b & mask(64), 64) if not is_sym(b) else a + b
        if is_sym(b):
            return z3.BitVecVal(a, 64) + b
        return (a + b) & mask(64)

    def binop(self, op, t, a, b):
        if t[0] == 'vec':
            return [self.binop(op, t[2], x, y) for x, y in zip(a, b)]
        if a is None or b is None:
            if op in ('and', 'or', 'xor', 'add', 'sub', 'mul', 'shl', 'lshr'):
                return None
            raise Unsupported('binop on undef')
        n = t[1] if t[0] == 'i' else 64
        if not is_sym(a) and not is_sym(b):
            m = mask(n)
            if op == 'add':
                return (a + b) & m
            if op == 'sub':
                return (a - b) & m
            if op == 'mul':
                return (a * b) & m
            if op == 'and':
                return a & b
            if op == 'or':
                return a | b
            if op == 'xor':
                return a ^ b
            if op == 'shl':
                return (a << b) & m if b < n else 0
            if op == 'lshr':
                return a >> b if b < n else 0
            if op == 'ashr':
                return (to_signed(a, n) >> min(b, n - 1)) & m
            if op == 'udiv':
                if b == 0:
                    raise Panic('udiv by zero')
                return a // b
            if op == 'urem':
                if b == 0:
                    raise Panic('urem by zero')
                return a % b
            if op == 'sdiv':
                sa, sb = to_signed(a, n), to_signed(b, n)
                q = abs(sa) // abs(sb)
                if (sa < 0) != (sb < 0):
                    q = -q
                return q & m
            if op == 'srem':
                sa, sb = to_signed(a, n), to_signed(b, n)
                r = abs(sa) % abs(sb)
                if sa < 0:
                    r = -r
                return r & m
            raise Unsupported('binop ' + op)
        if n == 1:
            x, y = boolv(a), boolv(b)
            if op == 'and':
                return z3.simplify(z3.And(x, y)) if True else None
            if op == 'or':
                return z3.simplify(z3.Or(x, y))
            if op in ('xor', 'add', 'sub'):
                return z3.simplify(z3.Xor(x, y))
            raise Unsupported('i1 binop ' + op)
        x, y = bvv(a, n), bvv(b, n)
        if op == 'add':
            r = x + y
        elif op == 'sub':
            r = x - y
        elif op == 'mul':
            r = x * y
        elif op == 'and':
            r = x & y
        elif op == 'or':
            r = x | y
        elif op == 'xor':
            r = x ^ y
        elif op == 'shl':
            r = x << y
        elif op == 'lshr':
            r = z3.LShR(x, y)
        elif op == 'ashr':
            r = x >> y
        elif op == 'udiv':
            r = z3.UDiv(x, y)
        elif op == 'urem':
            r = z3.URem(x, y)
        elif op == 'sdiv':
            r = x / y
        elif op == 'srem':
            r = z3.SRem(x, y)
        else:
            raise Unsupported('binop ' + op)
        return r

    def icmp(self, pred, t, a, b):
        if t[0] == 'vec':
            return [self.icmp(pred, t[2], x, y) for x, y in zip(a, b)]
        n = t[1] if t[0] == 'i' else 64
        if a is None or b is None:
            raise Unsupported('icmp on undef')
        if not is_sym(a) and not is_sym(b):
            if pred == 'eq':
                return int(a == b)
            if pred == 'ne':
                return int(a != b)
            if pred[0] == 's':
                a, b = to_signed(a, n), to_signed(b, n)
            p = pred[1:]
            return int({'gt': a > b, 'ge': a >= b, 'lt': a < b, 'le': a <= b}[p])
        if n == 1:
            x, y = boolv(a), boolv(b)
            if pred == 'eq':
                return x == y
            if pred == 'ne':
                return z3.Xor(x, y)
            x, y = bvv(a, 1), bvv(b, 1)
        else:
            x, y = bvv(a, n), bvv(b, n)
        if pred == 'eq':
            return x == y
        if pred == 'ne':
            return x != y
        if pred == 'ult':
            return z3.ULT(x, y)
        if pred == 'ule':
            return z3.ULE(x, y)
        if pred == 'ugt':
            return z3.UGT(x, y)
        if pred == 'uge':
            return z3.UGE(x, y)
        if pred == 'slt':
            return x < y
        if pred == 'sle':
            return x <= y
        if pred == 'sgt':
            return x > y
        if pred == 'sge':
            return x >= y
        raise Unsupported(pred)

    def do_cast(self, op, st_, v, tt):
        if st_[0] == 'vec':
            if op == 'bitcast':
                return self.bitcast_vec(st_, v, tt)
            return [self.do_cast(op, st_[2], x, tt[2]) for x in v]
        if op == 'bitcast' and tt[0] == 'vec':
            return self.bitcast_vec(st_, v, tt)
        if v is None:
            return None
        if op in ('ptrtoint', 'inttoptr', 'bitcast', 'addrspacecast'):
            sn = st_[1] if st_[0] == 'i' else 64
            tn = tt[1] if tt[0] == 'i' else 64
            if sn == tn:
                return v
            op = 'trunc' if tn < sn else 'zext'
        sn = st_[1] if st_[0] == 'i' else 64
        tn = tt[1] if tt[0] == 'i' else 64
        if op == 'trunc':
            if is_sym(v):
                if tn == 1:
                    return z3.Extract(0, 0, v) == 1
                return z3.Extract(tn - 1, 0, v)
            return v & mask(tn)
        if op == 'zext':
            if is_sym(v):
                if z3.is_bool(v):
                    return z3.If(v, z3.BitVecVal(1, tn), z3.BitVecVal(0, tn))
                return z3.ZeroExt(tn - sn, v)
            return v
        if op == 'sext':
            if is_sym(v):
                if z3.is_bool(v):
                    return z3.If(v, z3.BitVecVal(mask(tn), tn), z3.BitVecVal(0, tn))
                return z3.SignExt(tn - sn, v)
            return to_signed(v, sn) & mask(tn)
        raise Unsupported('cast ' + op)

    def bitcast_vec(self, st_, v, tt):
        # only <N x i1> -> iN and iN -> <N x i1>, and same-shape
        if st_[0] == 'vec' and tt[0] == 'i' and st_[2] == ('i', 1):
            if all(not is_sym(x) for x in v):
                r = 0
                for i, x in enumerate(v):
                    r |= (x & 1) << i
                return r
            return z3.simplify(z3.Concat(*[bvv(x, 1) for x in reversed(v)]))
        if st_[0] == 'vec' and tt[0] == 'vec' and st_[1] == tt[1]:
            return v
        if st_[0] == 'vec' and tt[0] == 'i':
            es = st_[2][1]
            if all(not is_sym(x) for x in v):
                r = 0
                for i, x in enumerate(v):
                    r |= x << (es * i)
                return r
            return z3.simplify(z3.Concat(*[bvv(x, es) for x in reversed(v)]))
        if st_[0] == 'i' and tt[0] == 'vec':
            es = tt[2][1]
            if is_sym(v):
                return [z3.Extract(es * i + es - 1, es * i, v) for i in range(tt[1])]
            return [(v >> (es * i)) & mask(es) for i in range(tt[1])]
        raise Unsupported('bitcast vec %r -> %r' % (st_, tt))

    def fresh(self, n, name):
        self.sym_counter += 1
        return z3.BitVec('%s!%d' % (name, self.sym_counter), n)

    # ------------------------------------------------------------------ operand eval
    def ev(self, st, fr, t, op):
        k = op[0]
        if k == 'l':
            try:
                return fr.locals[op[1]]
            except KeyError:
                raise Unsupported('undefined local %s in %s' % (op[1], fr.func.dem))
        if k == 'c':
            return op[1]
        if k == 'g':
            return self.global_addr(op[1], fr.func.file)
        if k == 'undef':
            if t[0] in ('struct',):
                return [None] * len(t[1])
            if t[0] in ('arr', 'vec'):
                return [None] * t[1]
            return None
        return self.const_value(t, op, fr.func.file)

    # ------------------------------------------------------------------ intercepts
    def setup_intercepts(self):
        I = self.intercepts
        I.append((re.compile(r'^(core::panicking::|std::panicking::|core::option::unwrap_failed|core::option::expect_failed|core::result::unwrap_failed|alloc::raw_vec::capacity_overflow|alloc::raw_vec::handle_error|alloc::alloc::handle_alloc_error|core::slice::index::slice_|core::str::slice_error_fail|core::cell::panic_already|std::thread::local::panic_access_error|core::slice::<impl \[T\]>::copy_from_slice::len_mismatch_fail|std::process::abort|core::slice::sort::shared::smallsort::panic_on_ord_violation)'), self.i_panic))
        I.append((re.compile(r'.*__rust_alloc_zeroed$'), self.i_alloc_zeroed))
        I.append((re.compile(r'.*__rust_alloc$'), self.i_alloc))
        I.append((re.compile(r'.*__rust_dealloc$'), self.i_dealloc))
        I.append((re.compile(r'.*__rust_realloc$'), self.i_realloc))
        I.append((re.compile(r'.*__rust_no_alloc_shim_is_unstable'), self.i_nop))
        I.append((re.compile(r'^<std::hash::random::RandomState as core::hash::BuildHasher>::hash_one::<'), self.i_hash_one))
        I.append((re.compile(r'^<std::hash::random::RandomState>::new$'), self.i_randomstate_new))
        I.append((re.compile(r'^std::sys::thread_local::destructors::.*register$'), self.i_nop))
        I.append((re.compile(r'^verif_'), self.i_verif))

    def find_intercept(self, name, dem):
        for rx, fn in self.intercepts:
            if rx.match(dem) or rx.match(name.lstrip('@')):
                return fn
        return None

    def i_nop(self, st, fr, name, dem, args, rt):
        return None

    def read_str(self, st, ptr, n):
        try:
            bs = []
            for i in range(min(n, 200)):
                b = self.load_int(st, ptr + i, 1)
                bs.append(b if isinstance(b, int) else 63)
            return bytes(bs).decode('utf8', 'replace')
        except Exception:
            return '?'

    def i_panic(self, st, fr, name, dem, args, rt):
        msg = dem
        if dem == 'core::panicking::panic' and not is_sym(args[0]) and not is_sym(args[1]):
            msg += ': ' + self.read_str(st, args[0], args[1])
        elif dem.startswith('core::option::expect_failed') and not is_sym(args[0]):
            msg += ': ' + self.read_str(st, args[0], args[1])
        raise Panic(msg + '  [in %s]' % fr.func.dem)

    def i_alloc(self, st, fr, name, dem, args, rt):
        size, align = self.need_conc(st, args[0]), self.need_conc(st, args[1])
        return self.alloc(st, size, align, 'heap@' + fr.func.dem[:60])

    def i_alloc_zeroed(self, st, fr, name, dem, args, rt):
        size, align = self.need_conc(st, args[0]), self.need_conc(st, args[1])
        return self.alloc(st, size, align, 'heapz@' + fr.func.dem[:60], fill=0)

    def i_dealloc(self, st, fr, name, dem, args, rt):
        o = self.find_obj(st, args[0], write=True)
        o.freed = True
        o.cells = {}
        st.lo = None
        return None

    def i_realloc(self, st, fr, name, dem, args, rt):
        ptr, old, align, new = args
        new = self.need_conc(st, new)
        old = self.need_conc(st, old)
        ptr = self.need_conc(st, ptr)
        nb = self.alloc(st, new, align, 'heapr@' + fr.func.dem[:60])
        self.memcpy(st, nb, ptr, min(old, new))
        o = self.find_obj(st, ptr, write=True)
        o.freed = True
        o.cells = {}
        return nb

    def i_hash_one(self, st, fr, name, dem, args, rt):
        return 0

    def i_randomstate_new(self, st, fr, name, dem, args, rt):
        return [0, 0]

    def i_verif(self, st, fr, name, dem, args, rt):
        n = name.lstrip('@')
        if n.startswith('verif_any_u'):
            w = int(n[len('verif_any_u'):])
            k = len(st.inputs)
            if self.concrete_inputs is not None:
                v = (self.concrete_inputs[k] if k < len(self.concrete_inputs) else 0) & mask(w)
            else:
                v = z3.BitVec('in%d_u%d' % (k, w), w)
            st.inputs.append(v)
            return v
        if n == 'verif_param':
            i = args[0]
            if is_sym(i):
                raise Unsupported('symbolic param index')
            return self.params[i] if i < len(self.params) else 0
        if n == 'verif_assume':
            c = boolv(args[0])
            if is_sym(c):
                if st.pending:
                    self.flush(st)
                m = None
                if st.model is not None and z3.is_true(st.model.eval(c, model_completion=True)):
                    m = st.model
                else:
                    m = self.check(st, c)
                if m is None:
                    raise PathEnd('infeasible')
                st.pc.append(c)
                st.model = m
            elif not c:
                raise PathEnd('infeasible')
            return None
        if n == 'verif_assert':
            c = boolv(args[0])
            aid = args[1] if not is_sym(args[1]) else -1
            st.asserts += 1
            site = self.assert_sites.setdefault(aid, [0, 0, 0])
            site[0] += 1
            if is_sym(c):
                c = z3.simplify(c)
            if is_sym(c) and not z3.is_true(c) and not z3.is_false(c):
                what = 'assertion id=%s in %s' % (aid, fr.func.dem)
                falsified = False
                if st.model is not None:
                    falsified = z3.is_false(st.model.eval(c, model_completion=True))
                if falsified:
                    # the model of this path already violates the assertion: no query needed.  Earlier pending
                    # assertions may be violated by the same model; flush reports the earliest one (program order).
                    st.pending.append((c, aid, what))
                    self.flush(st, hint=st.model)
                else:
                    st.pending.append((c, aid, what))
            else:
                if is_sym(c):
                    c = z3.is_true(c)
                if not c:
                    site[2] += 1
                    m = st.model if st.model is not None else self.check(st)
                    self.report_violation(st, m, 'assert', aid, 'assertion id=%s in %s' % (aid, fr.func.dem))
                    raise PathEnd('assert-fail')
                site[1] += 1
                self.stats['assert_concrete'] += 1
            return None
        if n == 'verif_cover':
            self.covers[args[0]] = self.covers.get(args[0], 0) + 1
            return None
        if n == 'verif_expect_panic':
            st.expect_panic = args[0]
            return None
        if n == 'verif_note':
            st.notes.append((args[0], args[1] if not is_sym(args[1]) else str(args[1])))
            return None
        raise Unsupported('verif intrinsic ' + n)

    def flush(self, st, hint=None):
        """decide all deferred assertions of this path with one query (repeated while violations are found)"""
        while st.pending:
            pend = st.pending
            if hint is not None:
                m = hint
                hint = None
            else:
                self.stats['assert_queries'] += 1
                neg = z3.Not(z3.And(*[c for c, _, _ in pend])) if len(pend) > 1 else z3.Not(pend[0][0])
                m = self.check_oneshot(st, neg)
            if m is None:
                for c, aid, what in pend:
                    self.assert_sites[aid][1] += 1
                self.stats['assert_unsat'] += len(pend)
                st.pending = []
                return
            bad = [(c, aid, what) for c, aid, what in pend if z3.is_false(m.eval(c, model_completion=True))]
            if not bad:
                raise Inconclusive('model of a violated assertion batch falsifies none of its members')
            c, aid, what = bad[0]
            self.assert_sites[aid][2] += 1
            self.report_violation(st, m, 'assert', aid, what)
            # continue on the side where this assertion holds
            m2 = self.check(st, c)
            if m2 is None:
                st.pending = []
                raise PathEnd('assert-fail')
            st.pc.append(c)
            st.model = m2
            st.pending = [x for x in pend if x[0] is not c]

    def flush_at_end(self, st):
        try:
            self.flush(st)
        except PathEnd:
            pass

    def input_values(self, st, model):
        vals = []
        for v in st.inputs:
            if is_sym(v):
                vals.append(model.eval(v, model_completion=True).as_long() if model is not None else 0)
            else:
                vals.append(v)
        return vals

    def sample_path(self, st, k):
        # keep the first paths and then every 2^j-th one: deterministic, spread over the exploration
        if len(self.path_samples) >= self.sample_cap and (k & (k - 1)) != 0:
            return
        if any(is_sym(v) for v in st.inputs):
            m = st.model if st.model is not None else self.check(st)
            if m is None:
                return
        else:
            m = None
        vec = self.input_values(st, m)
        if len(self.path_samples) >= self.sample_cap:
            self.path_samples[self.sample_cap - 1] = vec
        else:
            self.path_samples.append(vec)

    def report_violation(self, st, model, kind, aid, what):
        n = sum(1 for v in self.violations if v['kind'] == kind and v['id'] == aid)
        if n >= 3:
            return
        self.violations.append({'kind': kind, 'id': aid, 'what': what, 'inputs': self.input_values(st, model),
                                'notes': list(st.notes)})

    # ------------------------------------------------------------------ calls
    def resolve(self, name, fi):
        """(intercept, demangled name, function or None) for a direct callee, cached"""
        ck = (fi, name)
        r = self.icache.get(ck)
        if r is None:
            mod = self.mod
            key = mod.find_func(name, fi)
            dem = mod.demangled(name)
            ih = self.find_intercept(name, dem)
            f = mod.get_func(key) if (ih is None and key is not None) else None
            r = (ih, dem, f)
            self.icache[ck] = r
        return r

    def call(self, st, fr, dst, rt, callee, args):
        mod = self.mod
        if callee[0] == 'g':
            name = callee[1]
            if name.startswith('@llvm.'):
                r = self.intrinsic(st, fr, name, args, rt)
                if dst is not None:
                    fr.locals[dst] = r
                return
            ih, dem, f = self.resolve(name, fr.func.file)
        else:
            addr = self.ev(st, fr, PTR, callee)
            if is_sym(addr):
                raise Unsupported('symbolic callee')
            key = self.addr_fn.get(addr)
            if key is None:
                raise Panic('call to non-function address 0x%x' % addr)
            name = key[1] if isinstance(key, tuple) else key
            fi = None
            if isinstance(key, tuple) and key[0] != 'decl':
                fi = key[0]
            ih, dem, f = self.resolve(name, fi)
        if ih is not None:
            r = ih(st, fr, name, dem, args, rt)
            if dst is not None:
                fr.locals[dst] = r
            return
        if f is None:
            r = self.extern(st, fr, name, dem, args, rt)
            if dst is not None:
                fr.locals[dst] = r
            return
        if f.file == 0:
            self.funcs_seen[f.dem] = self.funcs_seen.get(f.dem, 0) + 1
        nf = Frame(f, dst, st.sbrk, len(st.sbases))
        params = f.params
        if len(args) != len(params):
            raise Unsupported('arg count mismatch calling %s' % f.dem)
        L = nf.locals
        for i in range(len(args)):
            L[params[i][1]] = args[i]
        st.frames.append(nf)
        if len(st.frames) > self.limits['max_depth']:
            raise Inconclusive('call depth limit %d' % self.limits['max_depth'])

    def extern(self, st, fr, name, dem, args, rt):
        n = name.lstrip('@')
        if n in ('memcpy', 'memmove'):
            self.memcpy(st, self.need_conc(st, args[0]), self.need_conc(st, args[1]), self.need_conc(st, args[2]))
            return args[0]
        if n == 'memset':
            self.memset(st, self.need_conc(st, args[0]), args[1] & 0xff if not is_sym(args[1]) else args[1], self.need_conc(st, args[2]))
            return args[0]
        if n in ('memcmp', 'bcmp'):
            cnt = self.need_conc(st, args[2])
            args = [self.need_conc(st, args[0]), self.need_conc(st, args[1]), cnt]
            # build symbolic comparison result (only equality sign matters for bcmp; memcmp sign by first diff)
            res = 0
            for i in reversed(range(cnt)):
                a = self.load_int(st, args[0] + i, 1)
                b = self.load_int(st, args[1] + i, 1)
                if not is_sym(a) and not is_sym(b) and not is_sym(res):
                    if a != b:
                        res = (1 if a > b else -1) & mask(32)
                else:
                    x, y = bvv(a, 8), bvv(b, 8)
                    res = z3.If(x == y, bvv(res, 32), z3.If(z3.UGT(x, y), z3.BitVecVal(1, 32), z3.BitVecVal(mask(32), 32)))
            return res
        raise Unsupported('external function %s (%s)' % (n, dem))

    def need_conc(self, st, v):
        """a value that must be concrete (allocation size, copy length).  If the path condition pins it to one
        value, return that value; otherwise ask the main loop to fork on its feasible values (NeedFork)."""
        if not is_sym(v):
            return v
        v = z3.simplify(v)
        if z3.is_bv_value(v):
            return v.as_long()
        m = st.model if st.model is not None else self.check(st)
        if m is None:
            raise PathEnd('infeasible')
        v0 = m.eval(v, model_completion=True).as_long()
        if self.check(st, v != z3.BitVecVal(v0, v.size())) is None:
            return v0
        raise NeedFork(v)

    def intrinsic(self, st, fr, name, args, rt):
        n = name[6:]
        if n.startswith('memcpy.') or n.startswith('memmove.'):
            self.memcpy(st, self.need_conc(st, args[0]), self.need_conc(st, args[1]), self.need_conc(st, args[2]))
            return None
        if n.startswith('memset.'):
            v = args[1]
            self.memset(st, self.need_conc(st, args[0]), v, self.need_conc(st, args[2]))
            return None
        if n.startswith('lifetime.') or n.startswith('dbg.') or n.startswith('assume') or n.startswith('experimental.noalias') or n.startswith('prefetch'):
            return None
        if n.startswith('expect.'):
            return args[0]
        m = re.match(r'([us])(add|sub|mul)\.with\.overflow\.i(\d+)', n)
        if m:
            sg, op, w = m.group(1), m.group(2), int(m.group(3))
            a, b = args
            t = ('i', w)
            r = self.binop(op, t, a, b)
            if not is_sym(a) and not is_sym(b):
                if sg == 'u':
                    full = {'add': a + b, 'sub': a - b, 'mul': a * b}[op]
                    ov = int(full < 0 or full > mask(w))
                else:
                    sa, sb = to_signed(a, w), to_signed(b, w)
                    full = {'add': sa + sb, 'sub': sa - sb, 'mul': sa * sb}[op]
                    ov = int(full < -(1 << (w - 1)) or full > mask(w - 1))
                return [r, ov]
            x, y = bvv(a, w), bvv(b, w)
            rr = bvv(r, w)
            zero = z3.BitVecVal(0, w)
            if sg == 'u':
                if op == 'add':
                    ov = z3.ULT(rr, x)
                elif op == 'sub':
                    ov = z3.ULT(x, y)
                else:
                    ov = z3.Extract(2 * w - 1, w, z3.ZeroExt(w, x) * z3.ZeroExt(w, y)) != z3.BitVecVal(0, w)
            else:
                if op == 'add':
                    ov = z3.Or(z3.And(x >= zero, y >= zero, rr < zero), z3.And(x < zero, y < zero, rr >= zero))
                elif op == 'sub':
                    ov = z3.Or(z3.And(x >= zero, y < zero, rr < zero), z3.And(x < zero, y >= zero, rr >= zero))
                else:
                    ov = z3.SignExt(w, x) * z3.SignExt(w, y) != z3.SignExt(w, rr)
            return [r, ov]
        m = re.match(r'(umin|umax|smin|smax)\.i(\d+)', n)
        if m:
            op, w = m.group(1), int(m.group(2))
            a, b = args
            pred = {'umin': 'ult', 'umax': 'ugt', 'smin': 'slt', 'smax': 'sgt'}[op]
            c = self.icmp(pred, ('i', w), a, b)
            if is_sym(c):
                return z3.If(c, bvv(a, w), bvv(b, w))
            return a if c else b
        m = re.match(r'(u|s)(add|sub)\.sat\.i(\d+)', n)
        if m:
            sg, op, w = m.group(1), m.group(2), int(m.group(3))
            a, b = args
            if sg == 'u' and not is_sym(a) and not is_sym(b):
                if op == 'add':
                    return min(a + b, mask(w))
                return max(a - b, 0)
            if sg == 's' and not is_sym(a) and not is_sym(b):
                sa, sb = to_signed(a, w), to_signed(b, w)
                r = sa + sb if op == 'add' else sa - sb
                r = max(-(1 << (w - 1)), min(mask(w - 1), r))
                return r & mask(w)
            x, y = bvv(a, w), bvv(b, w)
            if sg == 'u' and op == 'sub':
                return z3.If(z3.ULT(x, y), z3.BitVecVal(0, w), x - y)
            if sg == 'u' and op == 'add':
                return z3.If(z3.ULT(x + y, x), z3.BitVecVal(mask(w), w), x + y)
            # signed saturation
            zero = z3.BitVecVal(0, w)
            smax = z3.BitVecVal(mask(w - 1), w)
            smin = z3.BitVecVal(1 << (w - 1), w)
            if op == 'add':
                r = x + y
                pos_ov = z3.And(x >= zero, y >= zero, r < zero)
                neg_ov = z3.And(x < zero, y < zero, r >= zero)
            else:
                r = x - y
                pos_ov = z3.And(x >= zero, y < zero, r < zero)
                neg_ov = z3.And(x < zero, y >= zero, r >= zero)
            return z3.If(pos_ov, smax, z3.If(neg_ov, smin, r))
        m = re.match(r'(ctpop|ctlz|cttz|bswap|bitreverse)\.i(\d+)', n)
        if m:
            op, w = m.group(1), int(m.group(2))
            a = args[0]
            if is_sym(a):
                if op == 'ctpop':
                    r = z3.BitVecVal(0, w)
                    for i in range(w):
                        r = r + z3.ZeroExt(w - 1, z3.Extract(i, i, a))
                    return r
                if op == 'ctlz':
                    r = z3.BitVecVal(w, w)
                    for i in range(w):
                        r = z3.If(z3.Extract(i, i, a) == 1, z3.BitVecVal(w - 1 - i, w), r)
                    return r
                if op == 'cttz':
                    r = z3.BitVecVal(w, w)
                    for i in reversed(range(w)):
                        r = z3.If(z3.Extract(i, i, a) == 1, z3.BitVecVal(i, w), r)
                    return r
                if op == 'bswap':
                    return z3.Concat(*[z3.Extract(8 * i + 7, 8 * i, a) for i in range(w // 8)])
                raise Unsupported('symbolic ' + op)
            if op == 'ctpop':
                return bin(a).count('1')
            if op == 'ctlz':
                return w - a.bit_length()
            if op == 'cttz':
                return w if a == 0 else (a & -a).bit_length() - 1
            if op == 'bswap':
                return int.from_bytes(a.to_bytes(w // 8, 'little'), 'big')
        m = re.match(r'(fshl|fshr)\.i(\d+)', n)
        if m:
            op, w = m.group(1), int(m.group(2))
            a, b, c = args
            if is_sym(a) or is_sym(b) or is_sym(c):
                raise Unsupported('symbolic funnel shift')
            c %= w
            full = (a << w) | b
            if op == 'fshl':
                return (full >> (w - c)) & mask(w) if c else a
            return (full >> c) & mask(w)
        if n.startswith('abs.'):
            w = int(n.split('.i')[1])
            a = args[0]
            if is_sym(a):
                return z3.If(a < 0, -a, a)
            return abs(to_signed(a, w)) & mask(w)
        m = re.match(r'([us])cmp\.i(\d+)\.i(\d+)', n)
        if m:
            sg, rw, w = m.group(1), int(m.group(2)), int(m.group(3))
            a, b = args
            lt = self.icmp(sg + 'lt', ('i', w), a, b)
            gt = self.icmp(sg + 'gt', ('i', w), a, b)
            if not is_sym(lt) and not is_sym(gt):
                return mask(rw) if lt else (1 if gt else 0)
            return z3.If(boolv(lt), z3.BitVecVal(mask(rw), rw), z3.If(boolv(gt), z3.BitVecVal(1, rw), z3.BitVecVal(0, rw)))
        if n == 'trap' or n == 'debugtrap':
            raise Panic('llvm.trap')
        if n.startswith('is.constant'):
            return 0
        if n.startswith('threadlocal.address'):
            return args[0]
        if n.startswith('x86.sse2.pause'):
            return None
        if n.startswith('x86.sse2.pmovmskb.128'):
            v = args[0]
            if all(not is_sym(x) for x in v):
                r = 0
                for i, x in enumerate(v):
                    r |= ((x >> 7) & 1) << i
                return r
            return z3.simplify(z3.Concat(*[z3.Extract(7, 7, bvv(x, 8)) for x in reversed(v)] + []))
        raise Unsupported('intrinsic llvm.' + n)

    # ------------------------------------------------------------------ main loop
    def run_state(self, st, worklist):
        while True:
            fr = st.frames[-1]
            save = (len(st.frames), fr.block, fr.idx, fr.prev)
            try:
                return self._run(st, worklist)
            except NeedFork as nf:
                # restore the instruction pointer of the faulting instruction (no side effect happened before the raise)
                cur = st.frames[-1]
                cur.idx -= 1
                st.nins -= 1
                if st.pending:
                    self.flush(st)
                vals = sorted(self.addr_values(st, nf.expr, limit=64))
                if not vals:
                    raise PathEnd('infeasible')
                w = nf.expr.size()
                if len(vals) > 1 and len(st.dec) < len(self.forced):
                    k = self.forced[len(st.dec)]
                    st.dec = st.dec + (k,)
                    vals = [vals[k]]
                elif len(vals) > 1:
                    d0 = st.dec
                    st.dec = d0 + (0,)
                    for k, val in enumerate(vals[1:]):
                        other = st.fork()
                        other.dec = d0 + (k + 1,)
                        other.pc.append(nf.expr == z3.BitVecVal(val, w))
                        other.model = None
                        worklist.append(other)
                        self.stats['forks'] += 1
                st.pc.append(nf.expr == z3.BitVecVal(vals[0], w))
                st.model = None

    def _run(self, st, worklist):
        """run until path ends; push forks on worklist"""
        tc = self.tc
        max_ins = self.limits['max_instr_path']
        while True:
            fr = st.frames[-1]
            ins = fr.func.blocks[fr.block][fr.idx]
            fr.idx += 1
            st.nins += 1
            if st.nins > max_ins:
                raise Inconclusive('instruction limit per path')
            op = ins[0]
            L = fr.locals
            if op == 'load':
                _, dst, t, a = ins
                addr = (L[a[1]] if a[0] == 'l' else (a[1] if a[0] == 'c' else self.ev(st, fr, PTR, a)))
                if type(addr) is int:
                    k = t[0]
                    if k == 'ptr':
                        L[dst] = self.load_int(st, addr, 8)
                    elif k == 'i' and t[1] in (8, 16, 32, 64):
                        L[dst] = self.load_int(st, addr, t[1] >> 3)
                    else:
                        L[dst] = self.load(st, t, addr)
                elif is_sym(addr):
                    L[dst] = self.sym_load(st, t, addr)
                else:
                    L[dst] = self.load(st, t, addr)
            elif op == 'store':
                _, _, t, v, a = ins
                addr = (L[a[1]] if a[0] == 'l' else (a[1] if a[0] == 'c' else self.ev(st, fr, PTR, a)))
                val = (L[v[1]] if v[0] == 'l' else (v[1] if v[0] == 'c' else self.ev(st, fr, t, v)))
                if type(addr) is int:
                    k = t[0]
                    if k == 'ptr':
                        self.store_int(st, addr, 8, val)
                    elif k == 'i' and t[1] in (8, 16, 32, 64) and (type(val) is int or val is None):
                        self.store_int(st, addr, t[1] >> 3, val)
                    else:
                        self.store(st, t, val, addr)
                elif is_sym(addr):
                    self.sym_store(st, t, val, addr, worklist)
                else:
                    self.store(st, t, val, addr)
            elif op == 'gep':
                _, dst, bt, base, idx = ins
                b = (L[base[1]] if base[0] == 'l' else (base[1] if base[0] == 'c' else self.ev(st, fr, PTR, base)))
                L[dst] = self.gep(bt, b, [(it, (L[iv[1]] if iv[0] == 'l' else (iv[1] if iv[0] == 'c' else self.ev(st, fr, it, iv)))) for it, iv in idx])
            elif op == 'call':
                _, dst, rt, callee, args = ins
                av = [(L[a[1]] if a[0] == 'l' else (a[1] if a[0] == 'c' else self.ev(st, fr, t, a))) for t, a in args]
                self.call(st, fr, dst, rt, callee, av)
            elif op == 'alloca':
                _, dst, t, n, align = ins
                cnt = (L[n[1]] if n[0] == 'l' else (n[1] if n[0] == 'c' else self.ev(st, fr, ('i', 64), n)))
                a = self.alloc_stack(st, tc.sizeof(t) * cnt, align, dst)
                L[dst] = a
            elif op == 'extractvalue':
                _, dst, t, a, idx = ins
                v = (L[a[1]] if a[0] == 'l' else (a[1] if a[0] == 'c' else self.ev(st, fr, t, a)))
                for i in idx:
                    v = v[i] if v is not None else None
                L[dst] = v
            elif op == 'insertvalue':
                _, dst, t, a, et, e, idx = ins
                v = (L[a[1]] if a[0] == 'l' else (a[1] if a[0] == 'c' else self.ev(st, fr, t, a)))
                ev_ = (L[e[1]] if e[0] == 'l' else (e[1] if e[0] == 'c' else self.ev(st, fr, et, e)))
                L[dst] = self.insert(v, idx, ev_, t)
            elif op == 'br':
                _, _, c, a, b = ins
                cv = (L[c[1]] if c[0] == 'l' else (c[1] if c[0] == 'c' else self.ev(st, fr, ('i', 1), c)))
                if is_sym(cv):
                    cv = boolv(cv)
                    mt, mf = self.feasible_both(st, cv)
                    if mt is not None and mf is not None and len(st.dec) < len(self.forced):
                        # re-execution of a handed-over subtree: follow the recorded decision only
                        side = self.forced[len(st.dec)]
                        st.dec = st.dec + (side,)
                        if side == 0:
                            mf = None
                        else:
                            mt = None
                    if mt is not None and mf is not None and st.pending:
                        # decide the deferred assertions before forking; a reported violation restricts the path to the
                        # side where the assertion holds, which may leave only one side of this branch feasible
                        self.flush(st)
                        mt, mf = self.feasible_both(st, cv)
                    if mt is not None and mf is not None:
                        other = st.fork()
                        other.dec = st.dec + (1,)
                        st.dec = st.dec + (0,)
                        other.pc.append(z3.Not(cv))
                        other.model = mf
                        ofr = other.frames[-1]
                        ofr.prev = ofr.block; ofr.block = b; ofr.idx = 0
                        worklist.append(other)
                        self.stats['forks'] += 1
                        st.pc.append(cv)
                        st.model = mt
                        tgt = a
                    elif mt is not None:
                        tgt = a
                        st.pc.append(cv)
                        st.model = mt
                    elif mf is not None:
                        tgt = b
                        st.pc.append(z3.Not(cv))
                        st.model = mf
                    else:
                        raise PathEnd('infeasible')
                else:
                    if cv is None:
                        raise Unsupported('branch on undef in ' + fr.func.dem)
                    tgt = a if cv & 1 else b
                fr.prev = fr.block; fr.block = tgt; fr.idx = 0
            elif op == 'jmp':
                fr.prev = fr.block; fr.block = ins[2]; fr.idx = 0
            elif op == 'icmp':
                _, dst, pred, t, a, b = ins
                L[dst] = self.icmp(pred, t, (L[a[1]] if a[0] == 'l' else (a[1] if a[0] == 'c' else self.ev(st, fr, t, a))), (L[b[1]] if b[0] == 'l' else (b[1] if b[0] == 'c' else self.ev(st, fr, t, b))))
            elif op == 'bin':
                _, dst, bop, t, a, b = ins
                L[dst] = self.binop(bop, t, (L[a[1]] if a[0] == 'l' else (a[1] if a[0] == 'c' else self.ev(st, fr, t, a))), (L[b[1]] if b[0] == 'l' else (b[1] if b[0] == 'c' else self.ev(st, fr, t, b))))
            elif op == 'cast':
                _, dst, cop, t, a, tt = ins
                L[dst] = self.do_cast(cop, t, (L[a[1]] if a[0] == 'l' else (a[1] if a[0] == 'c' else self.ev(st, fr, t, a))), tt)
            elif op == 'ret':
                _, _, t, v = ins
                rv = (L[v[1]] if v[0] == 'l' else (v[1] if v[0] == 'c' else self.ev(st, fr, t, v))) if v is not None else None
                sb = st.sbases
                if len(sb) > fr.nsb:
                    mem = st.mem
                    for a in sb[fr.nsb:]:
                        mem.pop(a, None)
                    del sb[fr.nsb:]
                    st.lo = None
                st.sbrk = fr.sp
                st.frames.pop()
                if not st.frames:
                    return rv
                caller = st.frames[-1]
                if fr.dst is not None:
                    caller.locals[fr.dst] = rv
            elif op == 'select':
                _, dst, ct, c, t, a, b = ins
                cv = (L[c[1]] if c[0] == 'l' else (c[1] if c[0] == 'c' else self.ev(st, fr, ct, c)))
                av = (L[a[1]] if a[0] == 'l' else (a[1] if a[0] == 'c' else self.ev(st, fr, t, a)))
                bv_ = (L[b[1]] if b[0] == 'l' else (b[1] if b[0] == 'c' else self.ev(st, fr, t, b)))
                if ct[0] == 'vec':
                    L[dst] = [self.select1(x, y, z, t[2]) for x, y, z in zip(cv, av, bv_)]
                else:
                    L[dst] = self.select1(cv, av, bv_, t)
            elif op == 'switch':
                _, _, t, v, dflt, cases = ins
                val = (L[v[1]] if v[0] == 'l' else (v[1] if v[0] == 'c' else self.ev(st, fr, t, v)))
                if is_sym(val):
                    val = z3.simplify(val)
                if is_sym(val) and not z3.is_bv_value(val):
                    # fork over feasible cases
                    if st.pending:
                        self.flush(st)
                    n = t[1]
                    targets = []
                    rest = []
                    for cvv, lbl in cases:
                        c = (bvv(val, n) == z3.BitVecVal(cvv, n))
                        m = self.check(st, c)
                        rest.append(z3.Not(c))
                        if m is not None:
                            targets.append((c, m, lbl))
                    cd = z3.And(*rest) if rest else z3.BoolVal(True)
                    m = self.check(st, cd)
                    if m is not None:
                        targets.append((cd, m, dflt))
                    if not targets:
                        raise PathEnd('infeasible')
                    if len(targets) > 1 and len(st.dec) < len(self.forced):
                        k = self.forced[len(st.dec)]
                        st.dec = st.dec + (k,)
                        targets = [targets[k]]
                    elif len(targets) > 1:
                        d0 = st.dec
                        st.dec = d0 + (0,)
                    for k, (c, m, lbl) in enumerate(targets[1:]):
                        other = st.fork()
                        other.dec = d0 + (k + 1,)
                        other.pc.append(c); other.model = m
                        ofr = other.frames[-1]
                        ofr.prev = ofr.block; ofr.block = lbl; ofr.idx = 0
                        worklist.append(other)
                        self.stats['forks'] += 1
                    c, m, lbl = targets[0]
                    st.pc.append(c); st.model = m
                    tgt = lbl
                else:
                    if is_sym(val):
                        val = val.as_long()
                    tgt = dflt
                    for cvv, lbl in cases:
                        if cvv == val:
                            tgt = lbl
                            break
                fr.prev = fr.block; fr.block = tgt; fr.idx = 0
            elif op == 'phi':
                _, dst, t, inc = ins
                for v, lbl in inc:
                    if lbl == fr.prev:
                        L[dst] = (L[v[1]] if v[0] == 'l' else (v[1] if v[0] == 'c' else self.ev(st, fr, t, v)))
                        break
                else:
                    raise Unsupported('phi: no incoming for %s' % fr.prev)
            elif op == 'unreachable':
                raise Panic('reached unreachable in ' + fr.func.dem)
            elif op == 'nop':
                pass
            elif op == 'cmpxchg':
                _, dst, t, a, e, n = ins
                addr = (L[a[1]] if a[0] == 'l' else (a[1] if a[0] == 'c' else self.ev(st, fr, PTR, a)))
                old = self.load(st, t, addr)
                ev_ = (L[e[1]] if e[0] == 'l' else (e[1] if e[0] == 'c' else self.ev(st, fr, t, e)))
                nv = (L[n[1]] if n[0] == 'l' else (n[1] if n[0] == 'c' else self.ev(st, fr, t, n)))
                if is_sym(old) or is_sym(ev_):
                    raise Unsupported('symbolic cmpxchg')
                if old == ev_:
                    self.store(st, t, nv, addr)
                    L[dst] = [old, 1]
                else:
                    L[dst] = [old, 0]
            elif op == 'atomicrmw':
                _, dst, rop, t, a, v = ins
                addr = (L[a[1]] if a[0] == 'l' else (a[1] if a[0] == 'c' else self.ev(st, fr, PTR, a)))
                old = self.load(st, t, addr)
                val = (L[v[1]] if v[0] == 'l' else (v[1] if v[0] == 'c' else self.ev(st, fr, t, v)))
                if rop == 'xchg':
                    nv = val
                else:
                    nv = self.binop(rop, t, old, val)
                self.store(st, t, nv, addr)
                L[dst] = old
            elif op == 'extractelement':
                _, dst, t, a, i = ins
                L[dst] = (L[a[1]] if a[0] == 'l' else (a[1] if a[0] == 'c' else self.ev(st, fr, t, a)))[(L[i[1]] if i[0] == 'l' else (i[1] if i[0] == 'c' else self.ev(st, fr, ('i', 64), i)))]
            elif op == 'insertelement':
                _, dst, t, a, e, i = ins
                v = list((L[a[1]] if a[0] == 'l' else (a[1] if a[0] == 'c' else self.ev(st, fr, t, a))))
                v[(L[i[1]] if i[0] == 'l' else (i[1] if i[0] == 'c' else self.ev(st, fr, ('i', 64), i)))] = (L[e[1]] if e[0] == 'l' else (e[1] if e[0] == 'c' else self.ev(st, fr, t[2], e)))
                L[dst] = v
            elif op == 'shufflevector':
                _, dst, t, a, b, mt, m = ins
                av = (L[a[1]] if a[0] == 'l' else (a[1] if a[0] == 'c' else self.ev(st, fr, t, a)))
                bv_ = (L[b[1]] if b[0] == 'l' else (b[1] if b[0] == 'c' else self.ev(st, fr, t, b)))
                mv = (L[m[1]] if m[0] == 'l' else (m[1] if m[0] == 'c' else self.ev(st, fr, mt, m)))
                both = list(av) + list(bv_)
                L[dst] = [both[i] if i is not None else None for i in mv]
            elif op == 'freeze':
                _, dst, t, a = ins
                v = (L[a[1]] if a[0] == 'l' else (a[1] if a[0] == 'c' else self.ev(st, fr, t, a)))
                L[dst] = 0 if v is None else v
            else:
                raise Unsupported('instruction ' + op)

    def select1(self, c, a, b, t):
        if is_sym(c):
            c = boolv(c)
            if isinstance(a, list):
                return [self.select1(c, x, y, None) for x, y in zip(a, b)]
            if a is None or b is None:
                return a if b is None else b
            if not is_sym(a) and not is_sym(b) and a == b:
                return a
            if t is not None and t[0] == 'i' and t[1] == 1:
                return z3.If(c, boolv(a) if is_sym(a) else z3.BoolVal(bool(a)), boolv(b) if is_sym(b) else z3.BoolVal(bool(b)))
            n = 64 if t is None or t[0] == 'ptr' else t[1]
            if is_sym(a):
                n = a.size() if not z3.is_bool(a) else n
            elif is_sym(b):
                n = b.size() if not z3.is_bool(b) else n
            return z3.If(c, bvv(a, n), bvv(b, n))
        return a if c & 1 else b

    def insert(self, agg, idx, v, t):
        agg = list(agg) if agg is not None else [None] * (len(t[1]) if t[0] == 'struct' else t[1])
        if len(idx) == 1:
            agg[idx[0]] = v
        else:
            st_ = t[1][idx[0]] if t[0] == 'struct' else t[2]
            agg[idx[0]] = self.insert(agg[idx[0]], idx[1:], v, st_)
        return agg

    # symbolic addresses: enumerate feasible concrete values
    def addr_values(self, st, addr, limit=None):
        """all feasible concrete values of a symbolic term under the path condition (bounded)"""
        limit = limit or self.limits['max_addr_values']
        vals = []
        extra = []
        w = addr.size()
        while True:
            self.nqueries += 1
            self.stats['z3_queries'] += 1
            t0 = time.time()
            self.sync(st)
            r = self.solver.check(*extra)
            dt_ = time.time() - t0
            self.solver_time += dt_
            self.stats['z3_time'] += dt_
            if r == z3.unknown:
                raise Inconclusive('solver unknown while enumerating values of a symbolic address/size')
            if r != z3.sat:
                break
            v = self.solver.model().eval(addr, model_completion=True).as_long()
            vals.append(v)
            extra.append(addr != z3.BitVecVal(v, w))
            if len(vals) > limit:
                raise Unsupported('more than %d values for a symbolic address/size' % limit)
        return vals

    def sym_load(self, st, t, addr):
        addr = z3.simplify(addr)
        if z3.is_bv_value(addr):
            return self.load(st, t, addr.as_long())
        vals = self.addr_values(st, addr)
        if not vals:
            raise PathEnd('infeasible')
        res = None
        for v in vals:
            try:
                x = self.load(st, t, v)
            except Panic as e:
                raise Panic('symbolic-address load may fault: %s' % e.msg)
            if res is None:
                res = x
            else:
                res = self.select1(addr == z3.BitVecVal(v, 64), x, res, t)
        return res

    def sym_store(self, st, t, val, addr, worklist):
        addr = z3.simplify(addr)
        if z3.is_bv_value(addr):
            return self.store(st, t, val, addr.as_long())
        vals = self.addr_values(st, addr)
        if not vals:
            raise PathEnd('infeasible')
        # conditional update of every candidate cell
        for v in vals:
            old = self.load(st, t, v)
            new = self.select1(addr == z3.BitVecVal(v, 64), val, old, t)
            self.store(st, t, new, v)

    # ------------------------------------------------------------------ driver
    def explore(self, fname, args=()):
        """explore every feasible path of harness `fname`; returns a result dict"""
        mod = self.mod
        key = mod.find_func(fname, None)
        if key is None:
            raise KeyError(fname)
        f = mod.get_func(key)
        st = State()
        fr = Frame(f, None, st.sbrk, 0)
        for (pt, pn), a in zip(f.params, args):
            fr.locals[pn] = a
        st.frames.append(fr)
        worklist = [st]
        results = {'ok': 0, 'panic': 0, 'expected-panic': 0, 'infeasible': 0, 'assert-fail': 0}
        lim = self.limits
        status = 'complete'
        reason = ''
        npaths = 0
        remaining = []
        try:
            while worklist:
                s = worklist.pop()
                try:
                    try:
                        self.run_state(s, worklist)
                    except Panic:
                        self.flush_at_end(s)
                        raise
                    self.flush_at_end(s)
                    if s.expect_panic:
                        results['ok'] += 1
                        m = s.model if s.model is not None else self.check(s)
                        self.report_violation(s, m, 'missing-panic', s.expect_panic,
                                              'returned normally where a panic is required (id=%d)' % s.expect_panic)
                    else:
                        results['ok'] += 1
                        self.sample_path(s, results['ok'])
                except PathEnd as e:
                    results[e.kind] = results.get(e.kind, 0) + 1
                except Panic as e:
                    if s.expect_panic:
                        results['expected-panic'] += 1
                    else:
                        results['panic'] += 1
                        m = s.model if s.model is not None else self.check(s)
                        self.report_violation(s, m, 'panic', 0, e.msg)
                self.total_ins += s.nins
                npaths = results['ok'] + results['panic'] + results['expected-panic'] + results['assert-fail']
                if DEBUG and npaths % 50 == 0:
                    print('PROGRESS paths=%d wl=%d ins=%d t=%.0fs solver=%.0fs' % (npaths, len(worklist), self.total_ins, time.time() - self.t_start, self.solver_time), file=sys.stderr, flush=True)
                if npaths > lim['max_paths']:
                    raise Inconclusive('path limit %d' % lim['max_paths'])
                if self.total_ins > lim['max_instr_total']:
                    raise Inconclusive('total instruction limit')
                if time.time() - self.t_start > lim['timeout_s']:
                    raise Inconclusive('instance time limit %ds' % lim['timeout_s'])
                if self.budget_s is not None and worklist and time.time() - self.t_start > self.budget_s:
                    # hand the unexplored subtrees back to the driver (each identified by its decision string)
                    remaining = [list(w.dec) for w in worklist]
                    worklist = []
                    status = 'partial'
        except Inconclusive as e:
            status, reason = 'inconclusive', str(e)
        except Unsupported as e:
            status, reason = 'inconclusive', 'unsupported: ' + str(e)
        crate_funcs = sorted(self.funcs_seen)
        return {
            'status': status, 'reason': reason, 'paths': results, 'npaths': npaths,
            'instructions': self.total_ins, 'forks': self.stats['forks'], 'queries': self.nqueries,
            'solver_time': round(self.solver_time, 3), 'stats': dict(self.stats),
            'violations': self.violations, 'assert_sites': {str(k): v for k, v in self.assert_sites.items()},
            'covers': {str(k): v for k, v in self.covers.items()}, 'functions': crate_funcs,
            'wall': round(time.time() - self.t_start, 3), 'pending': len(worklist),
            'path_samples': self.path_samples, 'remaining': remaining,
        }


class NeedFork(Exception):
    """the current instruction needs `expr` concrete: fork the state on its feasible values and re-execute"""
    def __init__(self, expr):
        self.expr = expr


class SymAddr(Exception):
    pass


_MOD = None


def load_module(ll_paths):
    global _MOD
    _MOD = Module(ll_paths)
    return _MOD


_ENG = None


def run_instance(job):
    """job = dict(harness=, params=, limits=, concrete_inputs=None). Runs in a worker process (module pre-loaded by fork)."""
    global _ENG
    if _ENG is None or _ENG.mod is not _MOD:
        _ENG = Engine(_MOD)
    eng = _ENG
    res = None
    for attempt in (0, 1):
        eng.reset(job.get('params', ()), job.get('limits'), job.get('concrete_inputs'))
        eng.forced = tuple(job.get('decisions', ()))
        eng.budget_s = job.get('budget_s')
        try:
            res = eng.explore('@' + job['harness'])
            if attempt == 1:
                res['retried'] = first_error
            break
        except Exception as e:
            # an internal error of the engine: retry once with a fresh engine object (fresh global image and caches);
            # a second failure is reported as inconclusive, never as a pass
            import traceback
            first_error = '%r %s' % (e, traceback.format_exc()[-1200:])
            if attempt == 0:
                _ENG = Engine(_MOD)
                eng = _ENG
                continue
            res = None
    try:
        if res is None:
            raise RuntimeError(first_error)
    except Exception as e:  # engine bug: never a pass
        import traceback
        res = {'status': 'inconclusive', 'reason': 'engine exception: %r\n%s' % (e, traceback.format_exc()[-1500:]),
               'paths': {}, 'npaths': 0, 'instructions': 0, 'forks': 0, 'queries': 0, 'solver_time': 0, 'stats': {},
               'violations': [], 'assert_sites': {}, 'covers': {}, 'functions': [], 'wall': 0, 'pending': 0,
               'path_samples': [], 'remaining': []}
    res['harness'] = job['harness']
    res['params'] = list(job.get('params', ()))
    res['label'] = job.get('label', '')
    res['decisions'] = list(job.get('decisions', ()))
    return res


if __name__ == '__main__':
    import glob, json
    d = sys.argv[1]
    harness = sys.argv[2]
    params = [int(x) for x in sys.argv[3].split(',')] if len(sys.argv) > 3 and sys.argv[3] else []
    t0 = time.time()
    paths = sorted(glob.glob(os.path.join(d, '*.ll')))
    paths.sort(key=lambda p: (0 if 'aws_smt_strings' in p else 1, p))
    load_module(paths)
    print('indexed %d files in %.1fs' % (len(paths), time.time() - t0))
    res = run_instance({'harness': harness, 'params': params})
    fn = res.pop('functions')
    print(json.dumps(res, indent=1, default=str))
    print('crate functions executed: %d' % len(fn))
