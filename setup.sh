#!/bin/bash
# Run once after a fresh restore, offline: warms std's LLVM IR (toolchain-dependent only) for both profiles,
# the native replay build, byte-compiles the engine and runs the engine self-test.
set -e
DIR="$(cd "$(dirname "$0")" && pwd)"
export CARGO_NET_OFFLINE=true
cd "$DIR"
python3-vt -m compileall -q lib >/dev/null
OUT=$(mktemp -d /tmp/verif-setup-XXXXXX)
trap 'rm -rf "$OUT"' EXIT
python3-vt lib/build.py dev "$OUT" >/dev/null &
python3-vt lib/build.py rel "$OUT" >/dev/null &
python3-vt lib/build.py native "$OUT" >/dev/null &
wait
python3-vt lib/selftest.py
echo "setup ok"
