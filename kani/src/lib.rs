//! Second engine (Kani / CBMC) for the two purely scalar modules: the same definitional assertions as the llsymex
//! harnesses vh_c20_charset and vh_c15_basic, through the public API only.  Used to diff two independent encodings of
//! the same source: both engines must agree on the verdict.
#![allow(dead_code)]

#[cfg(kani)]
mod proofs {
    use aws_smt_strings::character_sets::CharSet;
    use aws_smt_strings::loop_ranges::LoopRange;
    const MAXC: u32 = 0x2FFFF;

    fn any_set() -> (u32, u32, CharSet) {
        let a: u32 = kani::any();
        let b: u32 = kani::any();
        kani::assume(a <= b && b <= MAXC);
        (a, b, CharSet::range(a, b))
    }

    #[kani::proof]
    fn c20_charset() {
        let (a, b, s) = any_set();
        let (c, d, t) = any_set();
        let x: u32 = kani::any();
        let in_s = a <= x && x <= b;
        let in_t = c <= x && x <= d;
        assert!(s.contains(x) == in_s);
        let cv = s.covers(&t);
        assert!(!cv || !in_t || in_s);
        assert!(cv || !(a <= c && c <= b) || !(a <= d && d <= b));
        assert!(s.size() == b - a + 1);
        assert!(s.is_singleton() == (a == b));
        assert!(s.is_alphabet() == (a == 0 && b == MAXC));
        assert!(s.is_before(x) == (b < x));
        assert!(s.is_after(x) == (x < a));
        let p = s.pick();
        assert!(a <= p && p <= b);
        match s.inter(&t) {
            Some(u) => assert!(u.contains(x) == (in_s && in_t)),
            None => assert!(!(in_s && in_t) && (b < c || d < a)),
        }
        let gap = b + 1 < c || d + 1 < a;
        match s.union(&t) {
            Some(u) => assert!(!gap && u.contains(x) == (in_s || in_t)),
            None => assert!(gap),
        }
        use std::cmp::Ordering;
        match s.partial_cmp(&t) {
            Some(Ordering::Equal) => assert!(a == c && b == d),
            Some(Ordering::Less) => assert!(b < c),
            Some(Ordering::Greater) => assert!(a > d),
            None => assert!(!(a == c && b == d) && !(b < c) && !(a > d)),
        }
        kani::cover!(true);
    }

    #[kani::proof]
    fn c20_inter_list() {
        let (a, b, s) = any_set();
        let (c, d, t) = any_set();
        let (e, f, u) = any_set();
        let x: u32 = kani::any();
        let mem = a <= x && x <= b && c <= x && x <= d && e <= x && x <= f;
        match CharSet::inter_list(&[s, t, u]) {
            Some(r) => assert!(r.contains(x) == mem),
            None => assert!(!mem),
        }
        kani::cover!(true);
    }

    fn any_range(inf: bool) -> (u32, u32, LoopRange) {
        let a: u32 = kani::any();
        let b: u32 = kani::any();
        if inf {
            (a, 0, LoopRange::infinite(a))
        } else {
            kani::assume(a <= b);
            (a, b, LoopRange::finite(a, b))
        }
    }

    fn mem(inf: bool, a: u32, b: u32, x: u32) -> bool {
        a <= x && (inf || x <= b)
    }

    fn c15_basic(ri: bool, si: bool) {
        let (a, b, r) = any_range(ri);
        let (c, d, s) = any_range(si);
        let x: u32 = kani::any();
        assert!(r.contains(x) == mem(ri, a, b, x));
        let inc = r.includes(&s);
        assert!(!inc || !mem(si, c, d, x) || mem(ri, a, b, x));
        assert!(inc || !mem(ri, a, b, c) || (!si && !mem(ri, a, b, d)) || (si && !ri));
        assert!(!inc || ri || !si);
        // shift
        let t = r.shift();
        assert!(t.is_infinite() == ri);
        assert!(!mem(ri, a, b, x) || t.contains(x.saturating_sub(1)));
        let y: u32 = kani::any();
        assert!(!t.contains(y) || (y < u32::MAX && mem(ri, a, b, y + 1)) || (y == 0 && mem(ri, a, b, 0)) || (y == u32::MAX && ri));
        // add, no-overflow precondition
        if a <= u32::MAX - c && (ri || si || b <= u32::MAX - d) {
            let z = r.add(&s);
            assert!(z.is_infinite() == (ri || si));
            if mem(ri, a, b, x) && mem(si, c, d, y) && x <= u32::MAX - y {
                assert!(z.contains(x + y));
            }
        }
        kani::cover!(true);
    }

    #[kani::proof]
    fn c15_fin_fin() { c15_basic(false, false) }
    #[kani::proof]
    fn c15_fin_inf() { c15_basic(false, true) }
    #[kani::proof]
    fn c15_inf_fin() { c15_basic(true, false) }
    #[kani::proof]
    fn c15_inf_inf() { c15_basic(true, true) }

    // right_mul_is_exact on 3-bit parameters against the union-of-multiples definition
    #[kani::proof]
    #[kani::unwind(60)]
    fn c15_mul_exact_small() {
        let a: u32 = kani::any();
        let b: u32 = kani::any();
        let c: u32 = kani::any();
        let d: u32 = kani::any();
        kani::assume(a <= b && b <= 5 && c <= d && d <= 5);
        let r = LoopRange::finite(a, b);
        let s = LoopRange::finite(c, d);
        let m = r.mul(&s);
        let exact = r.right_mul_is_exact(&s);
        let x: u32 = kani::any();
        kani::assume(x <= 26);
        let mut in_k = false;
        let mut y = 0;
        while y <= 5 {
            if c <= y && y <= d && y * a <= x && x <= y * b {
                in_k = true;
            }
            y += 1;
        }
        assert!(!in_k || m.contains(x));
        assert!(!exact || !m.contains(x) || in_k);
        kani::cover!(true);
    }
}
