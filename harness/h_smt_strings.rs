// Harnesses for src/smt_strings.rs: C06 (SMT-LIB string functions), C09 (order, int/code conversions),
// C17 (only SMT-LIB characters leave the API), C08 (literal parsing / printing).
// String lengths are concrete instance parameters; every character and every integer argument is symbolic.
#![allow(dead_code, missing_docs, unused_imports, clippy::all)]

use super::*;
use crate::vapi::*;

/// n symbolic characters of the SMT alphabet
fn any_chars(n: usize) -> Vec<u32> {
    let mut v = Vec::new();
    let mut i = 0;
    while i < n {
        v.push(any_char());
        i += 1;
    }
    v
}

/// well-formed SmtString built directly from its representation (no conversion code involved)
fn mk(v: &[u32]) -> SmtString {
    SmtString { s: v.to_vec() }
}

/// branch-free equality of a concrete-length result with a symbolic-content expectation
fn eqv(a: &[u32], b: &[u32]) -> bool {
    if a.len() != b.len() {
        return false;
    }
    let mut r = true;
    let mut i = 0;
    while i < a.len() {
        r = r & (a[i] == b[i]);
        i += 1;
    }
    r
}

/// pattern t occurs in s at position k (k concrete)
fn occ(s: &[u32], t: &[u32], k: usize) -> bool {
    if k + t.len() > s.len() {
        return false;
    }
    eqv(&s[k..k + t.len()], t)
}

fn cat3(a: &[u32], b: &[u32], c: &[u32]) -> Vec<u32> {
    let mut x = a.to_vec();
    x.extend_from_slice(b);
    x.extend_from_slice(c);
    x
}

// ---------------------------------------------------------------------------------------------
// C06.  params: 0 = |s|, 1 = |t| (pattern / second string), 2 = |r| (replacement), 3 = function group
#[no_mangle]
pub extern "C" fn vh_c06_strings() {
    let n = param(0) as usize;
    let m = param(1) as usize;
    let l = param(2) as usize;
    let group = param(3);
    let sv = any_chars(n);
    let tv = any_chars(m);
    let rv = any_chars(l);
    let i = any_i32();
    let cnt = any_i32();
    let s = mk(&sv);
    let t = mk(&tv);
    let r = mk(&rv);
    let ni = n as i32;
    if group == 0 {
        // concat, len, at, prefixof, suffixof, contains
        let c = str_concat(&s, &t);
        check(eqv(&c.s, &cat3(&sv, &tv, &[])), 1);
        check(c.is_good(), 2);
        check(str_len(&s) == ni, 3);
        let a = str_at(&s, i);
        let inside = (0 <= i) & (i < ni);
        match a.len() {
            0 => check(!inside, 4),
            1 => {
                // a[0] = s[i]: selection written as a disjunction over the concrete positions
                let mut ok = false;
                let mut k = 0;
                while k < n {
                    ok = ok | ((i == k as i32) & (a.s[0] == sv[k]));
                    k += 1;
                }
                check(inside & ok, 5);
            }
            _ => check(false, 6),
        }
        check(a.is_good(), 7);
        let pre = if m <= n { eqv(&sv[..m], &tv) } else { false };
        let suf = if m <= n { eqv(&sv[n - m..], &tv) } else { false };
        check(str_prefixof(&t, &s) == pre, 8);
        check(str_suffixof(&t, &s) == suf, 9);
        let mut any = false;
        let mut k = 0;
        while k <= n {
            any = any | occ(&sv, &tv, k);
            k += 1;
        }
        check(str_contains(&s, &t) == any, 10);
        cover(1);
    } else if group == 1 {
        // substr(s, i, cnt)
        let x = str_substr(&s, i, cnt);
        let empty = (i < 0) | (i >= ni) | (cnt <= 0);
        // expected: s[i .. min(i+cnt, n)]; the result length is concrete on each path
        let mut ok = empty & (x.len() == 0);
        let mut a = 0;
        while a < n {
            // start a, result length x.len() = min(cnt, n - a)
            let len = x.len();
            if len >= 1 && a + len <= n {
                let lenok = if a + len == n { cnt >= len as i32 } else { cnt == len as i32 };
                ok = ok | (!empty & (i == a as i32) & lenok & eqv(&x.s, &sv[a..a + len]));
            }
            a += 1;
        }
        check(ok, 11);
        check(x.is_good(), 12);
        cover(2);
    } else if group == 2 {
        // indexof(s, t, i): least position >= i at which t occurs, -1 if none or i outside [0, |s|]
        let res = str_indexof(&s, &t, i);
        let valid = (0 <= i) & (i <= ni);
        let mut none = true;
        let mut found = false;
        let mut k = 0;
        while k <= n {
            let here = occ(&sv, &tv, k) & (k as i32 >= i);
            // first: here, and no earlier admissible occurrence
            found = found | (valid & here & none & (res == k as i32));
            none = none & !here;
            k += 1;
        }
        check(found | ((!valid | none) & (res == -1)), 13);
        cover(3);
    } else if group == 3 {
        // replace(s, t, r): leftmost occurrence (the empty pattern occurs at 0)
        let x = str_replace(&s, &t, &r);
        let mut none = true;
        let mut ok = false;
        let mut k = 0;
        while k <= n {
            let here = occ(&sv, &tv, k);
            if k + m <= n {
                ok = ok | (here & none & eqv(&x.s, &cat3(&sv[..k], &rv, &sv[k + m..])));
            }
            none = none & !here;
            k += 1;
        }
        check(ok | (none & eqv(&x.s, &sv)), 14);
        check(x.is_good(), 15);
        cover(4);
    } else {
        // replace_all(s, t, r): left-to-right non-overlapping occurrences; empty pattern: unchanged
        let x = str_replace_all(&s, &t, &r);
        if m == 0 {
            check(eqv(&x.s, &sv), 16);
        } else {
            check(ra_ok(&sv, &tv, &rv, &x.s, 0, 0), 17);
        }
        check(x.is_good(), 18);
        cover(5);
    }
}

/// out[j..] is the SMT-LIB replace_all image of s[i..] (i, j concrete; contents symbolic; memoised on (i, j))
fn ra_ok(s: &[u32], t: &[u32], r: &[u32], out: &[u32], i: usize, j: usize) -> bool {
    let w = out.len() + 1;
    let mut done = vec![false; (s.len() + 1) * w];
    let mut val = vec![false; (s.len() + 1) * w];
    ra_rec(s, t, r, out, i, j, &mut done, &mut val)
}

fn ra_rec(s: &[u32], t: &[u32], r: &[u32], out: &[u32], i: usize, j: usize, done: &mut Vec<bool>, val: &mut Vec<bool>) -> bool {
    let n = s.len();
    let m = t.len();
    let w = out.len() + 1;
    if j > out.len() {
        return false;
    }
    let key = i * w + j;
    if done[key] {
        return val[key];
    }
    let mut none = true;
    let mut ok = false;
    let mut k = i;
    while k + m <= n {
        let here = occ(s, t, k);
        // first occurrence at k: out continues with s[i..k] ++ r, then the image of s[k+m..]
        let seg = k - i;
        if j + seg + r.len() <= out.len() {
            let copy = eqv(&out[j..j + seg], &s[i..k]) & eqv(&out[j + seg..j + seg + r.len()], r);
            let rest = ra_rec(s, t, r, out, k + m, j + seg + r.len(), done, val);
            ok = ok | (here & none & copy & rest);
        }
        none = none & !here;
        k += 1;
    }
    let rest = if out.len() - j == n - i { eqv(&out[j..], &s[i..]) } else { false };
    let res = ok | (none & rest);
    done[key] = true;
    val[key] = res;
    res
}

// ---------------------------------------------------------------------------------------------
// C09 order.  params: 0,1,2 = lengths of a, b, c
fn lex_lt(v: &[u32], w: &[u32]) -> bool {
    let min = if v.len() < w.len() { v.len() } else { w.len() };
    let mut eq = true;
    let mut lt = false;
    let mut k = 0;
    while k < min {
        lt = lt | (eq & (v[k] < w[k]));
        eq = eq & (v[k] == w[k]);
        k += 1;
    }
    lt | (eq & (v.len() < w.len()))
}

#[no_mangle]
pub extern "C" fn vh_c09_order() {
    let av = any_chars(param(0) as usize);
    let bv = any_chars(param(1) as usize);
    let cv = any_chars(param(2) as usize);
    let (a, b, c) = (mk(&av), mk(&bv), mk(&cv));
    let ab = str_lt(&a, &b);
    let ba = str_lt(&b, &a);
    let bc = str_lt(&b, &c);
    let ac = str_lt(&a, &c);
    let eq = eqv(&av, &bv);
    check(ab == lex_lt(&av, &bv), 1);
    check(str_le(&a, &b) == (lex_lt(&av, &bv) | eq), 2);
    check(str_le(&a, &b) == (ab | (a == b)), 3);
    check(!str_lt(&a, &a) & str_le(&a, &a), 4);
    check(!(ab & ba), 5);
    check(ab | ba | eq, 6);
    check(!(ab & bc) | ac, 7);
    check(!(str_le(&a, &b) & str_le(&b, &a)) | eq, 8);
    // prefix rule: a is a proper prefix of a.b' => a < a.b'
    if bv.len() > 0 {
        let ext = mk(&cat3(&av, &bv, &[]));
        check(str_lt(&a, &ext) & !str_lt(&ext, &a), 9);
    }
    cover(1);
}

// C09 str_to_int.  param 0 = length.  Run on the dev and the rel IR.
#[no_mangle]
pub extern "C" fn vh_c09_to_int() {
    let n = param(0) as usize;
    let v = any_chars(n);
    let s = mk(&v);
    let mut alldig = n > 0;
    let mut val: u64 = 0;
    let mut k = 0;
    while k < n {
        alldig = alldig & (v[k] >= 48) & (v[k] <= 57);
        val = val.wrapping_mul(10).wrapping_add((v[k].wrapping_sub(48)) as u64);
        k += 1;
    }
    let fits = val <= i32::MAX as u64;
    if alldig & !fits {
        // documented: panics when the value does not fit; returning any number is a violation
        expect_panic(1);
        let _ = str_to_int(&s);
    } else {
        let r = str_to_int(&s);
        check(alldig | (r == -1), 2);
        check(!alldig | (r as i64 as u64 == val), 3);
        cover(1);
    }
}

// C09 str_from_int.  params: 0 = mode (0: n in [lo,hi] given by params 1,2 as i32; 1: full range)
#[no_mangle]
pub extern "C" fn vh_c09_from_int() {
    let x = any_i32();
    if param(0) == 0 {
        assume(x >= param(1) as i32 && x <= param(2) as i32);
    }
    let s = str_from_int(x);
    if x < 0 {
        check(s.len() == 0, 10);
    } else {
        // canonical decimal numeral: digits only, no leading zero (except "0"), value = x
        let n = s.len();
        check(n >= 1 && n <= 10, 11);
        let mut alldig = true;
        let mut val: u64 = 0;
        let mut k = 0;
        while k < n {
            alldig = alldig & (s.s[k] >= 48) & (s.s[k] <= 57);
            val = val.wrapping_mul(10).wrapping_add((s.s[k].wrapping_sub(48)) as u64);
            k += 1;
        }
        check(alldig, 12);
        check(val == x as u64, 13);
        if n > 1 {
            check(s.s[0] != 48, 14);
        }
        check(str_to_int(&s) == x, 15);
        check(s.is_good(), 16);
    }
    cover(2);
}

// C09 codes and digits.  param 0 = length of the string argument
#[no_mangle]
pub extern "C" fn vh_c09_code() {
    let n = param(0) as usize;
    let v = any_chars(n);
    let s = mk(&v);
    let x = any_i32();
    check(str_to_code(&s) == if n == 1 { v[0] as i32 } else { -1 }, 20);
    check(str_is_digit(&s) == if n == 1 { (v[0] >= 48) & (v[0] <= 57) } else { false }, 21);
    let f = str_from_code(x);
    let valid = (0 <= x) & (x <= MAXC as i32);
    match f.len() {
        0 => check(!valid, 22),
        1 => check(valid & (f.s[0] == x as u32), 23),
        _ => check(false, 24),
    }
    check(f.is_good(), 25);
    // round trips
    check(!valid | (str_to_code(&f) == x), 26);
    if n == 1 {
        check(str_from_code(str_to_code(&s)) == s, 27);
    }
    cover(3);
}

// ---------------------------------------------------------------------------------------------
// C17.  param 0 = group
#[no_mangle]
pub extern "C" fn vh_c17_constructors() {
    let group = param(0);
    if group == 0 {
        // integer constructors, full u32 range
        let x = any_u32();
        let y = any_u32();
        let ex = if x <= MAXC { x } else { 0xFFFD };
        let ey = if y <= MAXC { y } else { 0xFFFD };
        let a = SmtString::from(x);
        check(a.is_good() & (a.len() == 1), 1);
        check(a.s[0] == ex, 2);
        let b = SmtString::from(&[x, y][..]);
        check(b.is_good() & eqv(&b.s, &[ex, ey]), 3);
        let c = SmtString::from(vec![x, y]);
        check(c.is_good() & eqv(&c.s, &[ex, ey]), 4);
        let d = SmtString::from(&[y, x, y]);
        check(d.is_good() & eqv(&d.s, &[ey, ex, ey]), 5);
        check(good_char(x) == (x <= MAXC), 6);
        check(good_string(&[x, y]) == ((x <= MAXC) & (y <= MAXC)), 7);
        cover(1);
    } else {
        // Rust chars: every scalar value, in particular U+30000 .. U+10FFFF
        let x = any_u32();
        assume(x <= 0x10FFFF && !(x >= 0xD800 && x <= 0xDFFF));
        let c = unsafe { char::from_u32_unchecked(x) };
        let ex = if x <= MAXC { x } else { 0xFFFD };
        if group == 1 {
            let a = SmtString::from(c);
            check(a.is_good(), 10);
            check(eqv(&a.s, &[ex]), 11);
        } else if group == 2 {
            let mut st = String::new();
            st.push('a');
            st.push(c);
            let a = SmtString::from(st.as_str());
            check(a.is_good(), 12);
            check(eqv(&a.s, &[97, ex]), 13);
            let b = SmtString::from(st);
            check(b.is_good() & eqv(&b.s, &[97, ex]), 14);
        } else if group == 3 {
            // literal text containing the character (no escape involved: 'a' c 'b')
            let mut st = String::new();
            st.push('a');
            st.push(c);
            st.push('b');
            let a = parse_smt_literal(st.as_str());
            check(a.is_good(), 15);
            if x != 92 {
                check(eqv(&a.s, &[97, ex, 98]), 16);
            }
        } else if group >= 5 {
            // literal text in which the character follows an unfinished escape prefix
            let prefixes: [&str; 8] = ["\\", "\\u", "\\u1", "\\u12", "\\u123", "\\u{", "\\u{1", "\\u{12345"];
            let pre = prefixes[(group - 5) as usize % 8];
            let mut st = String::new();
            st.push_str(pre);
            st.push(c);
            st.push('z');
            let a = parse_smt_literal(st.as_str());
            check(a.is_good(), 18);
            // nothing is decoded: every character of the unfinished prefix is copied, then c (or its replacement), then z
            if x != 92 && !((x >= 48 && x <= 57) || (x >= 65 && x <= 70) || (x >= 97 && x <= 102)) && x != 123 && x != 125 && x != 117 {
                let mut want: Vec<u32> = pre.chars().map(|ch| ch as u32).collect();
                want.push(ex);
                want.push(122);
                check(eqv(&a.s, &want), 19);
            }
        } else {
            // a string obtained from a char can be turned into a regular expression without panicking
            let a = SmtString::from(c);
            let mut re = crate::regular_expressions::ReManager::new();
            let e = re.str(&a);
            check(re.str_in_re(&a, e), 17);
        }
        cover(2);
    }
}

// ---------------------------------------------------------------------------------------------
// C08 parser.  The text is param(0) symbolic ASCII bytes, or a template: params 1.. give, per position,
// 0 = symbolic ASCII byte, otherwise the concrete byte value.
fn is_hex(b: u32) -> bool {
    ((b >= 48) & (b <= 57)) | ((b >= 65) & (b <= 70)) | ((b >= 97) & (b <= 102))
}

fn hex_val(b: u32) -> u32 {
    if b <= 57 { b - 48 } else if b <= 70 { b - 55 } else { b - 87 }
}

/// grammar-level reference: at position i, if the text spells \\ud3d2d1d0 or \u{d..} (1-5 hex digits, value <= 0x2FFFF)
/// emit the code point and skip the escape, otherwise copy one character.  No state machine, no pending buffer.
fn ref_decode(t: &[u32]) -> Vec<u32> {
    let n = t.len();
    let mut out = Vec::new();
    let mut i = 0;
    while i < n {
        if t[i] == 92 && i + 1 < n && t[i + 1] == 117 {
            if i + 2 < n && t[i + 2] == 123 {
                let mut k = 0;
                let mut val = 0u32;
                while k < 6 && i + 3 + k < n && is_hex(t[i + 3 + k]) {
                    val = val.wrapping_mul(16).wrapping_add(hex_val(t[i + 3 + k]));
                    k += 1;
                }
                if k >= 1 && k <= 5 && i + 3 + k < n && t[i + 3 + k] == 125 && val <= MAXC {
                    out.push(val);
                    i += 4 + k;
                    continue;
                }
            } else if i + 5 < n && is_hex(t[i + 2]) && is_hex(t[i + 3]) && is_hex(t[i + 4]) && is_hex(t[i + 5]) {
                let val = hex_val(t[i + 2]) * 4096 + hex_val(t[i + 3]) * 256 + hex_val(t[i + 4]) * 16 + hex_val(t[i + 5]);
                out.push(val);
                i += 6;
                continue;
            }
        }
        out.push(t[i]);
        i += 1;
    }
    out
}

#[no_mangle]
pub extern "C" fn vh_c08_parse() {
    let n = param(0) as usize;
    let mut bytes: Vec<u8> = Vec::new();
    let mut t: Vec<u32> = Vec::new();
    let mut i = 0;
    while i < n {
        let p = param(1 + i as u32);
        let b = if p == 0 {
            let b = any_u8();
            assume(b < 128);
            b
        } else {
            p as u8
        };
        bytes.push(b);
        t.push(b as u32);
        i += 1;
    }
    let text = unsafe { std::str::from_utf8_unchecked(&bytes) };
    let got = parse_smt_literal(text);
    let want = ref_decode(&t);
    check(eqv(&got.s, &want), 1);
    check(got.is_good(), 2);
    cover(1);
}

// C08 printer.  The string is param(0) code points; params 1.. give per position 0 = symbolic code point,
// otherwise (concrete code point + 1).
#[no_mangle]
pub extern "C" fn vh_c08_print() {
    let n = param(0) as usize;
    let mut v: Vec<u32> = Vec::new();
    let mut i = 0;
    while i < n {
        let p = param(1 + i as u32);
        v.push(if p == 0 { any_char() } else { p - 1 });
        i += 1;
    }
    let s = mk(&v);
    let text = s.to_string();
    let b = text.as_bytes();
    let len = b.len();
    check(len >= 2, 1);
    if len < 2 {
        return;
    }
    check((b[0] == 34) & (b[len - 1] == 34), 2);
    // printable ASCII only; a double quote inside the body only occurs doubled
    let mut body: Vec<u8> = Vec::new();
    let mut k = 1;
    while k < len - 1 {
        check((b[k] >= 32) & (b[k] <= 126), 3);
        if b[k] == 34 {
            check(k + 1 < len - 1 && b[k + 1] == 34, 4);
            k += 1;
        }
        body.push(b[k]);
        k += 1;
    }
    let body_text = unsafe { std::str::from_utf8_unchecked(&body) };
    let back = parse_smt_literal(body_text);
    check(eqv(&back.s, &v), 5);
    // per-character helpers agree with Display
    if n == 1 {
        let mut q = String::new();
        q.push('"');
        q.push_str(&char_to_smt(v[0]));
        q.push('"');
        check(q == text, 6);
        check(smt_char_as_string(v[0]) == char_to_smt(v[0]), 7);
    }
    cover(2);
}
