// C04, driver 1: the Hopcroft minimizer on an arbitrary (symbolic) complete transition table.
#![allow(dead_code, missing_docs, unused_imports, clippy::all)]

use super::*;
use crate::vapi::*;

const NM: usize = 5;
const MM: usize = 3;

// params: 0 = N states, 1 = M characters, 2 = final-state mask + 1 (0: symbolic)
#[no_mangle]
pub extern "C" fn vh_c04_table() {
    let n = param(0) as usize;
    let m = param(1) as usize;
    let mut t = [[0u32; MM]; NM];
    let mut f = [false; NM];
    let mut i = 0;
    while i < n {
        let mut a = 0;
        while a < m {
            t[i][a] = any_in(0, n as u32 - 1);
            a += 1;
        }
        // param 2: 0 = symbolic final flags, otherwise (concrete mask of final states) + 1
        f[i] = if param(2) == 0 { any_bool() } else { ((param(2) - 1) >> i) & 1 == 1 };
        i += 1;
    }
    // Moore's distinguishability relation, branch-free: N rounds reach the fixpoint
    let mut dist = [[false; NM]; NM];
    let mut p = 0;
    while p < n {
        let mut q = 0;
        while q < n {
            dist[p][q] = f[p] != f[q];
            q += 1;
        }
        p += 1;
    }
    let mut round = 0;
    while round < n {
        let mut nd = dist;
        let mut p = 0;
        while p < n {
            let mut q = 0;
            while q < n {
                let mut d = dist[p][q];
                let mut a = 0;
                while a < m {
                    let mut u = 0;
                    while u < n {
                        let mut v = 0;
                        while v < n {
                            d = d | ((t[p][a] == u as u32) & (t[q][a] == v as u32) & dist[u][v]);
                            v += 1;
                        }
                        u += 1;
                    }
                    a += 1;
                }
                nd[p][q] = d;
                q += 1;
            }
            p += 1;
        }
        dist = nd;
        round += 1;
    }
    let delta = |i: u32, j: u32| t[i as usize][j as usize];
    let is_final = |i: u32| f[i as usize];
    let mut mz = Minimizer::new(n as u32, m as u32, delta, is_final);
    let part = mz.refine();
    check(part.size() == n as u32, 1);
    let mut p = 0;
    while p < n {
        let bp = part.block_id(p as u32);
        check((bp >= 1) & (bp < part.num_blocks()), 2);
        let mut q = p + 1;
        while q < n {
            let same = bp == part.block_id(q as u32);
            // same block exactly when not distinguishable (no two equivalent states are separated, none merged wrongly)
            check(same == !dist[p][q], 3);
            q += 1;
        }
        p += 1;
    }
    check(part.index() == part.num_blocks() - 1, 4);
    // every block is non-empty and its representative belongs to it
    let mut b = 1;
    while b < part.num_blocks() {
        let e = part.pick_element(b);
        check((e < n as u32), 5);
        if e < n as u32 {
            check(part.block_id(e) == b, 6);
        }
        b += 1;
    }
    cover(1);
}
