// Harnesses for src/automata.rs: C13 (builder), C14 (pruning, combined partition, successor table), C04 (minimize).
// Shared by the regex harnesses (compiled automata) through `check_structure`, `check_minimized`.
#![allow(dead_code, missing_docs, unused_imports, clippy::all)]

use super::*;
use crate::vapi::*;

pub const SMAX: usize = 4; // states
pub const KMAX: usize = 3; // transitions per state

/// A builder specification as the caller gives it: per state a list of labelled transitions and an optional default.
#[derive(Clone)]
pub struct Spec {
    pub n: usize,
    pub k: [usize; SMAX],
    pub lab: [[(u32, u32); KMAX]; SMAX],
    pub tgt: [[u32; KMAX]; SMAX],
    pub has_def: [bool; SMAX],
    pub def: [u32; SMAX],
    pub fin: [bool; SMAX],
}

impl Spec {
    fn empty(n: usize) -> Spec {
        Spec { n, k: [0; SMAX], lab: [[(0, 0); KMAX]; SMAX], tgt: [[0; KMAX]; SMAX], has_def: [false; SMAX], def: [0; SMAX], fin: [false; SMAX] }
    }

    fn covers(&self, s: usize, j: usize, c: u32) -> bool {
        (self.lab[s][j].0 <= c) & (c <= self.lab[s][j].1)
    }

    /// feed the specification to a builder through the public API
    pub fn build(&self) -> (AutomatonBuilder<u32>, Result<Automaton, Error>) {
        let mut b = AutomatonBuilder::new(&0u32);
        let mut s = 0;
        while s < self.n {
            let mut j = 0;
            while j < self.k[s] {
                b.add_transition(&(s as u32), &CharSet::range(self.lab[s][j].0, self.lab[s][j].1), &self.tgt[s][j]);
                j += 1;
            }
            if self.has_def[s] {
                b.set_default_successor(&(s as u32), &self.def[s]);
            }
            if self.fin[s] {
                b.mark_final(&(s as u32));
            }
            s += 1;
        }
        let r = b.build();
        (b, r)
    }
}

/// arbitrary specification: labels are arbitrary symbolic intervals (may overlap), targets and defaults symbolic
fn any_spec(n: usize, kks: &[usize]) -> Spec {
    let mut sp = Spec::empty(n);
    let mut s = 0;
    while s < n {
        let kk = kks[s];
        sp.k[s] = kk;
        let mut j = 0;
        while j < kk {
            let a = any_u32();
            let b = any_u32();
            assume(a <= b && b <= MAXC);
            sp.lab[s][j] = (a, b);
            sp.tgt[s][j] = pin(any_in(0, n as u32 - 1), n as u32);
            j += 1;
        }
        sp.has_def[s] = any_bool();
        if sp.has_def[s] {
            sp.def[s] = pin(any_in(0, n as u32 - 1), n as u32);
        }
        sp.fin[s] = any_bool();
        s += 1;
    }
    sp
}

/// complete deterministic specification: sorted disjoint labels, a default exactly where a gap exists
pub fn complete_spec(n: usize, kk: &[usize]) -> Spec {
    let mut sp = Spec::empty(n);
    let mut s = 0;
    while s < n {
        sp.k[s] = kk[s];
        let mut j = 0;
        let mut tiles = kk[s] > 0;
        while j < kk[s] {
            let a = any_u32();
            let b = any_u32();
            assume(a <= b && b <= MAXC);
            if j == 0 {
                tiles = tiles & (a == 0);
            } else {
                assume(a > sp.lab[s][j - 1].1);
                tiles = tiles & (a == sp.lab[s][j - 1].1.wrapping_add(1));
            }
            sp.lab[s][j] = (a, b);
            sp.tgt[s][j] = pin(any_in(0, n as u32 - 1), n as u32);
            j += 1;
        }
        if kk[s] > 0 {
            tiles = tiles & (sp.lab[s][kk[s] - 1].1 == MAXC);
        }
        if !tiles {
            sp.has_def[s] = true;
            sp.def[s] = pin(any_in(0, n as u32 - 1), n as u32);
        }
        sp.fin[s] = any_bool();
        s += 1;
    }
    sp
}

// ---------------------------------------------------------------------------------------------
// C13a: arbitrary call sequences.  params: 0 = number of states, 1..4 = transitions per state
#[no_mangle]
pub extern "C" fn vh_c13_any() {
    let n = param(0) as usize;
    let kks = [param(1) as usize, param(2) as usize, param(3) as usize, param(4) as usize];
    let sp = any_spec(n, &kks);
    let c = any_char(); // free witness character: the solver searches for a conflicting / uncovered one
    let (b, r) = sp.build();
    match r {
        Err(_) => {}
        Ok(m) => {
            // state ids as assigned by the builder (read-only look at its map)
            let mut id = [0usize; SMAX];
            let mut s = 0;
            while s < n {
                match b.id_map.get(&(s as u32)) {
                    Some(i) => id[s] = *i,
                    None => id[s] = usize::MAX, // state never mentioned: not part of the automaton
                }
                s += 1;
            }
            check(m.initial_state().id() == id[0], 1);
            let mut nfinal = 0;
            let mut s = 0;
            while s < n {
                if id[s] == usize::MAX {
                    s += 1;
                    continue;
                }
                // accepted => in state s no character has two different successors and every character has one
                let mut conflict = false;
                let mut covered = false;
                let mut j = 0;
                while j < sp.k[s] {
                    let mut l = j + 1;
                    while l < sp.k[s] {
                        conflict = conflict | (sp.covers(s, j, c) & sp.covers(s, l, c) & (sp.tgt[s][j] != sp.tgt[s][l]));
                        l += 1;
                    }
                    covered = covered | sp.covers(s, j, c);
                    j += 1;
                }
                check(!conflict, 2);
                check(covered | sp.has_def[s], 3);
                // delta is the caller's: the covering transition, else the declared default
                let st = m.state(id[s]);
                let nx = m.next(st, c).id();
                let mut ok = true;
                let mut j = 0;
                while j < sp.k[s] {
                    ok = ok & (!sp.covers(s, j, c) | (nx == id[sp.tgt[s][j] as usize]));
                    j += 1;
                }
                if sp.has_def[s] {
                    ok = ok & (covered | (nx == id[sp.def[s] as usize]));
                }
                check(ok, 4);
                check(st.is_final() == sp.fin[s], 5);
                check(st.id() == id[s], 6);
                if sp.fin[s] {
                    nfinal += 1;
                }
                s += 1;
            }
            check(m.num_final_states() == nfinal, 7);
            check(m.num_states() == b.size, 8);
        }
    }
    cover(1);
}

// C13b: complete conflict-free specifications with defaults only where a gap exists are accepted, delta preserved.
// params: 0 = n, 1.. = transitions per state
#[no_mangle]
pub extern "C" fn vh_c13_complete() {
    let n = param(0) as usize;
    let kk = [param(1) as usize, param(2) as usize, param(3) as usize, param(4) as usize];
    let sp = complete_spec(n, &kk);
    let c = any_char();
    let (b, r) = sp.build();
    match r {
        Err(_) => check(false, 10),
        Ok(m) => {
            check_against_spec(&sp, &b, &m, c);
        }
    }
    cover(2);
}

/// ids of the spec's states in the automaton; usize::MAX if the state was never mentioned
fn ids_of(sp: &Spec, b: &AutomatonBuilder<u32>) -> [usize; SMAX] {
    let mut id = [usize::MAX; SMAX];
    let mut s = 0;
    while s < sp.n {
        if let Some(i) = b.id_map.get(&(s as u32)) {
            id[s] = *i;
        }
        s += 1;
    }
    id
}

fn check_against_spec(sp: &Spec, b: &AutomatonBuilder<u32>, m: &Automaton, c: u32) {
    let id = ids_of(sp, b);
    check(m.initial_state().id() == id[0], 11);
    let mut s = 0;
    let mut nfinal = 0;
    while s < sp.n {
        if id[s] != usize::MAX {
            let st = m.state(id[s]);
            let nx = m.next(st, c).id();
            let mut covered = false;
            let mut ok = true;
            let mut j = 0;
            while j < sp.k[s] {
                covered = covered | sp.covers(s, j, c);
                ok = ok & (!sp.covers(s, j, c) | (nx == id[sp.tgt[s][j] as usize]));
                j += 1;
            }
            if sp.has_def[s] {
                ok = ok & (covered | (nx == id[sp.def[s] as usize]));
            }
            check(ok, 12);
            check(st.is_final() == sp.fin[s], 13);
            if sp.fin[s] {
                nfinal += 1;
            }
        }
        s += 1;
    }
    check(m.num_final_states() == nfinal, 14);
}

// ---------------------------------------------------------------------------------------------
// Structure checks shared with compiled automata (C14): combined partition, alphabet, successor table, iterators.
pub fn check_structure(m: &Automaton, x: u32, y: u32) {
    let n = m.num_states();
    let p = m.combined_char_partition();
    // x, y in the same class of the combined partition => identical successors in every state
    let mut same = false;
    let mut cx = false;
    let mut cy = false;
    let mut i = 0;
    while i < p.len() {
        let (a, b) = p.get(i);
        let ix = (a <= x) & (x <= b);
        let iy = (a <= y) & (y <= b);
        same = same | (ix & iy);
        cx = cx | ix;
        cy = cy | iy;
        i += 1;
    }
    same = same | (!cx & !cy);
    let mut s = 0;
    while s < n {
        let st = m.state(s);
        check(st.id() == s, 20);
        // successor of x and of y in state s, read off the state's own classes without branching on x, y:
        // for every target t, "x goes to t" and "y goes to t" must agree when x and y share a combined class
        let k = st.classes.len();
        let mut covx = false;
        let mut covy = false;
        let mut agree = true;
        let mut t = 0;
        while t < n {
            let mut xt = false;
            let mut yt = false;
            let mut i = 0;
            while i < k {
                let (a, b) = st.classes.get(i);
                let to_t = m.class_next(st, ClassId::Interval(i)).id() == t;
                xt = xt | ((a <= x) & (x <= b) & to_t);
                yt = yt | ((a <= y) & (y <= b) & to_t);
                if t == 0 {
                    covx = covx | ((a <= x) & (x <= b));
                    covy = covy | ((a <= y) & (y <= b));
                }
                i += 1;
            }
            if let Some(d) = st.default_successor() {
                xt = xt | (!covx_all(st, x) & (d == t));
                yt = yt | (!covx_all(st, y) & (d == t));
            }
            agree = agree & (xt == yt);
            t += 1;
        }
        check(!same | agree, 22);
        s += 1;
    }
    // alphabet: exactly one representative per class of the combined partition
    let alpha = m.pick_alphabet();
    check(alpha.len() == p.num_classes(), 23);
    let mut k = 0;
    while k < alpha.len() {
        if k < p.len() {
            let (a, b) = p.get(k);
            check((a <= alpha[k]) & (alpha[k] <= b), 24);
        } else {
            check(p.class_of_char(alpha[k]) == ClassId::Complement && alpha[k] <= MAXC, 25);
        }
        k += 1;
    }
    // successor table
    let t = m.compile_successors();
    check(t.num_states() == n && t.alphabet_size() == alpha.len(), 26);
    let mut s = 0;
    while s < n {
        let st = m.state(s);
        let mut k = 0;
        while k < alpha.len() {
            check(t.eval(s as u32, k as u32) as usize == m.next(st, alpha[k]).id(), 27);
            k += 1;
        }
        s += 1;
    }
    // edges / final states / counters
    let mut nfinal = 0;
    let mut s = 0;
    while s < n {
        let st = m.state(s);
        let mut cnt = 0;
        for (cid, t2) in m.edges(st) {
            check(st.valid_class_id(cid), 28);
            let c = st.classes.pick_in_class(cid);
            check(m.next(st, c).id() == t2.id(), 29);
            check(m.class_next(st, cid).id() == t2.id(), 30);
            cnt += 1;
        }
        check(cnt == st.num_successors() + if st.has_default_successor() { 1 } else { 0 }, 31);
        // totality: the classes of the state cover the alphabet
        check(st.has_default_successor() | st.classes.empty_complement(), 32);
        if st.is_final() {
            nfinal += 1;
        }
        s += 1;
    }
    check(m.num_final_states() == nfinal, 33);
    let mut cnt = 0;
    let mut last = None;
    for f in m.final_states() {
        check(f.is_final(), 34);
        if let Some(l) = last {
            check(f.id() > l, 35);
        }
        last = Some(f.id());
        cnt += 1;
    }
    check(cnt == nfinal, 36);
    check(m.states().count() == n, 37);
}

fn covx_all(st: &State, x: u32) -> bool {
    let mut c = false;
    let mut i = 0;
    while i < st.classes.len() {
        let (a, b) = st.classes.get(i);
        c = c | ((a <= x) & (x <= b));
        i += 1;
    }
    c
}

/// Moore's algorithm on the disjoint union of two automata over a common alphabet of class representatives.
/// Returns (dist matrix over union states, offset of m2's states).  Ordinary Rust: on each engine path the
/// transition structure is pinned by the path condition.
fn union_moore(m1: &Automaton, m2: &Automaton) -> (Vec<Vec<bool>>, usize) {
    let n1 = m1.num_states();
    let n2 = m2.num_states();
    let n = n1 + n2;
    let alpha: Vec<u32> = merge_partitions(&m1.combined_char_partition(), &m2.combined_char_partition()).picks().collect();
    let mut delta: Vec<Vec<usize>> = Vec::new();
    let mut fin: Vec<bool> = Vec::new();
    let mut s = 0;
    while s < n1 {
        let st = m1.state(s);
        delta.push(alpha.iter().map(|&c| m1.next(st, c).id()).collect());
        fin.push(st.is_final());
        s += 1;
    }
    let mut s = 0;
    while s < n2 {
        let st = m2.state(s);
        delta.push(alpha.iter().map(|&c| n1 + m2.next(st, c).id()).collect());
        fin.push(st.is_final());
        s += 1;
    }
    let mut dist = vec![vec![false; n]; n];
    let mut p = 0;
    while p < n {
        let mut q = 0;
        while q < n {
            dist[p][q] = fin[p] != fin[q];
            q += 1;
        }
        p += 1;
    }
    let mut changed = true;
    while changed {
        changed = false;
        let mut p = 0;
        while p < n {
            let mut q = 0;
            while q < n {
                if !dist[p][q] {
                    let mut a = 0;
                    while a < alpha.len() {
                        if dist[delta[p][a]][delta[q][a]] {
                            dist[p][q] = true;
                            changed = true;
                        }
                        a += 1;
                    }
                }
                q += 1;
            }
            p += 1;
        }
    }
    (dist, n1)
}

/// m2 = minimize(m1-twin): same language for strings of any length (initial states bisimilar), every old state has
/// an equivalent new state, no two new states equivalent, counters consistent.
pub fn check_minimized(m1: &Automaton, m2: &Automaton) {
    let (dist, off) = union_moore(m1, m2);
    let n1 = m1.num_states();
    let n2 = m2.num_states();
    check(!dist[m1.initial_state().id()][off + m2.initial_state().id()], 40);
    let mut p = 0;
    while p < n1 {
        let mut found = false;
        let mut q = 0;
        while q < n2 {
            found = found | !dist[p][off + q];
            q += 1;
        }
        check(found, 41);
        p += 1;
    }
    let mut classes = 0;
    let mut p = 0;
    while p < n1 {
        let mut first = true;
        let mut q = 0;
        while q < p {
            if !dist[p][q] {
                first = false;
            }
            q += 1;
        }
        if first {
            classes += 1;
        }
        p += 1;
    }
    check(n2 == classes, 42);
    let mut p = 0;
    while p < n2 {
        let mut q = p + 1;
        while q < n2 {
            check(dist[off + p][off + q], 43);
            q += 1;
        }
        p += 1;
    }
    let mut nf = 0;
    let mut p = 0;
    while p < n2 {
        check(m2.state(p).id() == p, 44);
        if m2.state(p).is_final() {
            nf += 1;
        }
        p += 1;
    }
    check(m2.num_final_states() == nf, 45);
}

/// m2 = m1-twin after remove_unreachable_states
pub fn check_pruned(m1: &Automaton, m2: &Automaton) {
    let n1 = m1.num_states();
    // reachability fixpoint on m1 through next() on class representatives
    let mut reach = vec![false; n1];
    reach[m1.initial_state().id()] = true;
    let mut changed = true;
    while changed {
        changed = false;
        let mut s = 0;
        while s < n1 {
            if reach[s] {
                let st = m1.state(s);
                for c in st.char_picks() {
                    let t = m1.next(st, c).id();
                    if !reach[t] {
                        reach[t] = true;
                        changed = true;
                    }
                }
            }
            s += 1;
        }
    }
    let cnt = reach.iter().filter(|&&r| r).count();
    check(m2.num_states() == cnt, 50);
    // same language, any length: initial states bisimilar; every kept state is reachable in m2
    let (dist, off) = union_moore(m1, m2);
    check(!dist[m1.initial_state().id()][off + m2.initial_state().id()], 51);
    // kept states are exactly the reachable ones (no particular numbering is demanded): every reachable old state has an
    // equivalent new state with the same finality, and every new state is equivalent to some reachable old state
    let n2 = m2.num_states();
    let mut s = 0;
    while s < n1 {
        if reach[s] {
            let mut found = false;
            let mut k = 0;
            while k < n2 {
                found = found | (!dist[s][off + k] & (m1.state(s).is_final() == m2.state(k).is_final()));
                k += 1;
            }
            check(found, 52);
        }
        s += 1;
    }
    let mut k = 0;
    while k < n2 {
        let mut found = false;
        let mut s = 0;
        while s < n1 {
            found = found | (reach[s] & !dist[s][off + k]);
            s += 1;
        }
        check(found, 53);
        k += 1;
    }
}

// C14 / C04 on builder-made automata.  params: 0 = n, 1..4 = transitions per state, 5 = string length, 6 = what
//   what 0: structure of the built automaton; 1: remove_unreachable_states; 2: minimize; 3: prune then minimize
#[no_mangle]
pub extern "C" fn vh_c14_built() {
    let n = param(0) as usize;
    let kk = [param(1) as usize, param(2) as usize, param(3) as usize, param(4) as usize];
    let len = param(5) as usize;
    let what = param(6);
    let sp = complete_spec(n, &kk);
    if param(7) == 1 {
        // two states whose single labels jointly tile the alphabet: [0,x] in state 0, [x+1,MAX] in state 1
        assume(sp.lab[0][0].0 == 0 && sp.lab[1][0].0 == sp.lab[0][0].1.wrapping_add(1) && sp.lab[1][0].1 == MAXC);
    }
    let x = any_char();
    let y = any_char();
    let mut w: Vec<u32> = Vec::new();
    let mut i = 0;
    while i < len {
        w.push(any_char());
        i += 1;
    }
    let ws = SmtString::from(&w[..]);
    let (_, r1) = sp.build();
    let (_, r2) = sp.build();
    match (r1, r2) {
        (Ok(m1), Ok(mut m2)) => {
            if what == 0 {
                check_structure(&m1, x, y);
            } else if what == 5 {
                // char_set_next on the symbolic set [min(x,y), max(x,y)]: Ok gives the common successor of all its
                // members, Err exactly when the set meets two classes of the state
                let (lo, hi) = if x <= y { (x, y) } else { (y, x) };
                let set = CharSet::range(lo, hi);
                let z = any_in(lo, hi);
                let mut s = 0;
                while s < m1.num_states() {
                    let st = m1.state(s);
                    let mut inside_one = false;
                    let mut disjoint_all = true;
                    for r in st.char_ranges() {
                        inside_one = inside_one | r.covers(&set);
                        disjoint_all = disjoint_all & ((hi < r.pick()) | r.is_before(lo));
                    }
                    match m1.char_set_next(st, &set) {
                        Ok(t) => {
                            check(inside_one | disjoint_all, 66);
                            check(m1.next(st, z).id() == t.id(), 67);
                        }
                        Err(e) => {
                            check(!(inside_one | disjoint_all), 68);
                            check(e == Error::AmbiguousCharSet, 69);
                        }
                    }
                    // str_next = fold of next
                    let t1 = m1.next(st, x);
                    let t2 = m1.next(t1, y);
                    check(m1.str_next(st, &SmtString::from(&[x, y][..])).id() == t2.id(), 70);
                    s += 1;
                }
            } else if what == 1 {
                m2.remove_unreachable_states();
                check_pruned(&m1, &m2);
                check_structure(&m2, x, y);
                check(m2.accepts(&ws) == m1.accepts(&ws), 60);
            } else if what == 2 {
                m2.minimize();
                check_minimized(&m1, &m2);
                check_structure(&m2, x, y);
                check(m2.accepts(&ws) == m1.accepts(&ws), 61);
            } else if what == 4 {
                // minimize, then prune: the pruned automaton is the reachable part of the minimized one
                let mut ma = m1;
                ma.minimize();
                m2.minimize();
                m2.remove_unreachable_states();
                check_pruned(&ma, &m2);
                check_structure(&m2, x, y);
                check(m2.accepts(&ws) == ma.accepts(&ws), 64);
                check(m2.initial_state().id() < m2.num_states(), 65);
            } else {
                // pruning then minimizing gives the canonical minimal DFA: as many states as Nerode classes of reachable states
                let mut m0 = m1;
                m0.remove_unreachable_states();
                m2.remove_unreachable_states();
                m2.minimize();
                check_minimized(&m0, &m2);
                check(m2.accepts(&ws) == m0.accepts(&ws), 62);
            }
        }
        _ => check(false, 63),
    }
    cover(1);
}
