// Harnesses for src/regular_expressions.rs (and the re_* wrappers): C01 C02 C03 C05 C07 C10 C16 C18 C19.
//
// A *construction program* is a small AST whose structure is concrete (instance parameters, prefix token
// stream) and whose parameters (range end points, characters, loop bounds) are symbolic.  `build` replays it
// through the real constructors; `Sem` evaluates the SMT-LIB 2.6 denotation of the same program on a string
// of concrete length and symbolic characters, branch-free, sharing no code with the crate.
#![allow(dead_code, missing_docs, unused_imports, clippy::all)]

use super::*;
use crate::automata::Automaton;
use crate::smt_regular_expressions as W;
use crate::vapi::*;

// token codes (prefix notation)
pub const T_NONE: u32 = 0;
pub const T_EPS: u32 = 1;
pub const T_ALLCHAR: u32 = 2;
pub const T_ALL: u32 = 3;
pub const T_RANGE: u32 = 4; // symbolic a <= b
pub const T_CHAR: u32 = 5; // symbolic singleton
pub const T_STR: u32 = 6; // next token = length; symbolic characters
pub const T_SMTRANGE: u32 = 7; // re.range on two 1-character strings with unconstrained order (a > b gives none)
pub const T_CONCAT: u32 = 10;
pub const T_UNION: u32 = 11;
pub const T_INTER: u32 = 12;
pub const T_DIFF: u32 = 13;
pub const T_COMP: u32 = 20;
pub const T_STAR: u32 = 21;
pub const T_PLUS: u32 = 22;
pub const T_OPT: u32 = 23;
pub const T_POWER: u32 = 24; // symbolic k in [0, B]
pub const T_LOOP: u32 = 25; // symbolic i, j in [0, B], any order (i > j gives none)
pub const T_LOOPINF: u32 = 26; // mk_loop(e, [i, inf)), symbolic i in [0, B]
pub const T_REF: u32 = 30; // next token = index of an earlier node of the same program (shared sub-term, same symbols)
pub const T_RANGE0: u32 = 31; // range [0, b]
pub const T_RANGEMAX: u32 = 32; // range [a, MAX]
pub const T_ADJ: u32 = 33; // range adjacent to the previously drawn range: [prev.b + 1, c]

pub struct Node {
    pub op: u32,
    pub a: usize,
    pub b: usize,
    pub x: u32,
    pub y: u32,
    pub s: Vec<u32>,
}

pub struct Prog {
    pub nodes: Vec<Node>,
    pub root: usize,
    pub bmax: u32,
    last_range_end: u32,
}

impl Prog {
    /// decode the prefix token stream starting at parameter index *pi; draws the symbolic parameters
    pub fn decode(pi: &mut u32, bmax: u32) -> Prog {
        let mut p = Prog { nodes: Vec::new(), root: 0, bmax, last_range_end: 0 };
        p.root = p.dec(pi);
        p
    }

    fn push(&mut self, op: u32, a: usize, b: usize, x: u32, y: u32, s: Vec<u32>) -> usize {
        self.nodes.push(Node { op, a, b, x, y, s });
        self.nodes.len() - 1
    }

    fn dec(&mut self, pi: &mut u32) -> usize {
        let op = param(*pi);
        *pi += 1;
        match op {
            T_NONE | T_EPS | T_ALLCHAR | T_ALL => self.push(op, 0, 0, 0, 0, Vec::new()),
            T_RANGE => {
                let a = any_u32();
                let b = any_u32();
                assume(a <= b && b <= MAXC);
                self.last_range_end = b;
                self.push(T_RANGE, 0, 0, a, b, Vec::new())
            }
            T_RANGE0 => {
                let b = any_char();
                self.last_range_end = b;
                self.push(T_RANGE, 0, 0, 0, b, Vec::new())
            }
            T_RANGEMAX => {
                let a = any_char();
                self.last_range_end = MAXC;
                self.push(T_RANGE, 0, 0, a, MAXC, Vec::new())
            }
            T_ADJ => {
                let prev = self.last_range_end;
                let b = any_u32();
                assume(prev < MAXC && b > prev && b <= MAXC);
                self.last_range_end = b;
                self.push(T_RANGE, 0, 0, prev + 1, b, Vec::new())
            }
            T_CHAR => {
                let a = any_char();
                self.push(T_RANGE, 0, 0, a, a, Vec::new())
            }
            T_SMTRANGE => {
                let a = any_char();
                let b = any_char();
                self.push(T_SMTRANGE, 0, 0, a, b, Vec::new())
            }
            T_STR => {
                let k = param(*pi) as usize;
                *pi += 1;
                let mut s = Vec::new();
                let mut i = 0;
                while i < k {
                    s.push(any_char());
                    i += 1;
                }
                self.push(T_STR, 0, 0, 0, 0, s)
            }
            T_CONCAT | T_UNION | T_INTER | T_DIFF => {
                let a = self.dec(pi);
                let b = self.dec(pi);
                self.push(op, a, b, 0, 0, Vec::new())
            }
            T_COMP | T_STAR | T_PLUS | T_OPT => {
                let a = self.dec(pi);
                self.push(op, a, 0, 0, 0, Vec::new())
            }
            T_POWER | T_LOOPINF => {
                let k = any_in(0, self.bmax);
                let a = self.dec(pi);
                self.push(op, a, 0, k, 0, Vec::new())
            }
            T_LOOP => {
                let i = any_in(0, self.bmax);
                let j = any_in(0, self.bmax);
                let a = self.dec(pi);
                self.push(op, a, 0, i, j, Vec::new())
            }
            T_REF => {
                let k = param(*pi) as usize;
                *pi += 1;
                assume(k < self.nodes.len());
                k
            }
            _ => {
                assume(false);
                0
            }
        }
    }

    /// replay the program through the real constructors of `re`
    pub fn build(&self, re: &mut ReManager, n: usize) -> RegLan {
        let nd = &self.nodes[n];
        match nd.op {
            T_NONE => re.empty(),
            T_EPS => re.epsilon(),
            T_ALLCHAR => re.all_chars(),
            T_ALL => re.full(),
            T_RANGE => {
                if nd.x == nd.y {
                    re.char(nd.x)
                } else {
                    re.range(nd.x, nd.y)
                }
            }
            T_SMTRANGE => re.smt_range(&SmtString::from(nd.x), &SmtString::from(nd.y)),
            T_STR => re.str(&SmtString::from(&nd.s[..])),
            T_CONCAT => {
                let a = self.build(re, nd.a);
                let b = self.build(re, nd.b);
                re.concat(a, b)
            }
            T_UNION => {
                let a = self.build(re, nd.a);
                let b = self.build(re, nd.b);
                re.union(a, b)
            }
            T_INTER => {
                let a = self.build(re, nd.a);
                let b = self.build(re, nd.b);
                re.inter(a, b)
            }
            T_DIFF => {
                let a = self.build(re, nd.a);
                let b = self.build(re, nd.b);
                re.diff(a, b)
            }
            T_COMP => {
                let a = self.build(re, nd.a);
                re.complement(a)
            }
            T_STAR => {
                let a = self.build(re, nd.a);
                re.star(a)
            }
            T_PLUS => {
                let a = self.build(re, nd.a);
                re.plus(a)
            }
            T_OPT => {
                let a = self.build(re, nd.a);
                re.opt(a)
            }
            T_POWER => {
                let a = self.build(re, nd.a);
                re.exp(a, nd.x)
            }
            T_LOOP => {
                let a = self.build(re, nd.a);
                re.smt_loop(a, nd.x, nd.y)
            }
            _ => {
                let a = self.build(re, nd.a);
                re.mk_loop(a, LoopRange::infinite(nd.x))
            }
        }
    }

    fn flatten(&self, op: u32, n: usize, out: &mut Vec<usize>) {
        let nd = &self.nodes[n];
        if nd.op == op {
            self.flatten(op, nd.a, out);
            self.flatten(op, nd.b, out);
        } else {
            out.push(n);
        }
    }

    /// replay the program through the n-ary list constructors where a chain of the same operator occurs
    pub fn build_l(&self, re: &mut ReManager, n: usize) -> RegLan {
        let nd = &self.nodes[n];
        match nd.op {
            T_CONCAT | T_UNION | T_INTER => {
                let mut ops = Vec::new();
                self.flatten(nd.op, n, &mut ops);
                let mut v: Vec<RegLan> = Vec::new();
                for k in ops {
                    v.push(self.build_l(re, k));
                }
                match nd.op {
                    T_CONCAT => re.concat_list(v),
                    T_UNION => re.union_list(v),
                    _ => re.inter_list(v),
                }
            }
            T_DIFF => {
                // diff(diff(a, b), c) = diff_list(a, [b, c])
                let mut subs = Vec::new();
                let mut cur = n;
                while self.nodes[cur].op == T_DIFF {
                    subs.push(self.nodes[cur].b);
                    cur = self.nodes[cur].a;
                }
                let a = self.build_l(re, cur);
                let mut v: Vec<RegLan> = Vec::new();
                for k in subs.iter().rev() {
                    v.push(self.build_l(re, *k));
                }
                re.diff_list(a, v)
            }
            T_COMP => {
                let a = self.build_l(re, nd.a);
                re.complement(a)
            }
            T_STAR => {
                let a = self.build_l(re, nd.a);
                re.star(a)
            }
            T_PLUS => {
                let a = self.build_l(re, nd.a);
                re.plus(a)
            }
            T_OPT => {
                let a = self.build_l(re, nd.a);
                re.opt(a)
            }
            T_POWER => {
                let a = self.build_l(re, nd.a);
                re.exp(a, nd.x)
            }
            T_LOOP => {
                let a = self.build_l(re, nd.a);
                re.smt_loop(a, nd.x, nd.y)
            }
            T_LOOPINF => {
                let a = self.build_l(re, nd.a);
                re.mk_loop(a, LoopRange::infinite(nd.x))
            }
            _ => self.build(re, n),
        }
    }

    /// replay the program through the SMT-LIB-named wrappers (thread-local manager)
    pub fn build_w(&self, n: usize) -> RegLan {
        let nd = &self.nodes[n];
        match nd.op {
            T_NONE => W::re_none(),
            T_EPS => W::str_to_re(&empty_str()),
            T_ALLCHAR => W::re_allchar(),
            T_ALL => W::re_all(),
            T_RANGE | T_SMTRANGE => W::re_range(&SmtString::from(nd.x), &SmtString::from(nd.y)),
            T_STR => W::str_to_re(&SmtString::from(&nd.s[..])),
            T_CONCAT => W::re_concat(self.build_w(nd.a), self.build_w(nd.b)),
            T_UNION => W::re_union(self.build_w(nd.a), self.build_w(nd.b)),
            T_INTER => W::re_inter(self.build_w(nd.a), self.build_w(nd.b)),
            T_DIFF => W::re_diff(self.build_w(nd.a), self.build_w(nd.b)),
            T_COMP => W::re_comp(self.build_w(nd.a)),
            T_STAR => W::re_star(self.build_w(nd.a)),
            T_PLUS => W::re_plus(self.build_w(nd.a)),
            T_OPT => W::re_opt(self.build_w(nd.a)),
            T_POWER => W::re_power(self.build_w(nd.a), nd.x),
            T_LOOP => W::re_loop(self.build_w(nd.a), nd.x, nd.y),
            _ => {
                // unbounded loop through the wrappers: R^i . R*
                let a = self.build_w(nd.a);
                W::re_concat(W::re_power(a, nd.x), W::re_star(a))
            }
        }
    }
}

fn empty_str() -> SmtString {
    SmtString::from(&[][..])
}

/// SMT-LIB denotation of a program on w[i..j], branch-free, memoised per (node, i, j)
pub struct Sem<'a> {
    p: &'a Prog,
    w: &'a [u32],
    l: usize,
    cmax: usize,
    done: Vec<bool>,
    val: Vec<bool>,
    cdone: Vec<bool>,
    cval: Vec<bool>,
}

impl<'a> Sem<'a> {
    pub fn new(p: &'a Prog, w: &'a [u32]) -> Sem<'a> {
        let l = w.len() + 1;
        let cmax = p.bmax as usize + w.len() + 1;
        let n = p.nodes.len();
        Sem {
            p,
            w,
            l,
            cmax,
            done: vec![false; n * l * l],
            val: vec![false; n * l * l],
            cdone: vec![false; n * (cmax + 1) * l * l],
            cval: vec![false; n * (cmax + 1) * l * l],
        }
    }

    pub fn root(&mut self, i: usize, j: usize) -> bool {
        let r = self.p.root;
        self.sem(r, i, j)
    }

    pub fn whole(&mut self) -> bool {
        let n = self.w.len();
        self.root(0, n)
    }

    /// w[i..j] is a concatenation of exactly c words of node n
    fn cnt(&mut self, n: usize, c: usize, i: usize, j: usize) -> bool {
        let idx = ((n * (self.cmax + 1) + c) * self.l + i) * self.l + j;
        if self.cdone[idx] {
            return self.cval[idx];
        }
        let r = if c == 0 {
            i == j
        } else {
            let mut r = false;
            let mut k = i;
            while k <= j {
                let x = self.sem(n, i, k);
                let y = self.cnt(n, c - 1, k, j);
                r = r | (x & y);
                k += 1;
            }
            r
        };
        self.cdone[idx] = true;
        self.cval[idx] = r;
        r
    }

    pub fn sem(&mut self, n: usize, i: usize, j: usize) -> bool {
        let idx = (n * self.l + i) * self.l + j;
        if self.done[idx] {
            return self.val[idx];
        }
        let op = self.p.nodes[n].op;
        let a = self.p.nodes[n].a;
        let b = self.p.nodes[n].b;
        let x = self.p.nodes[n].x;
        let y = self.p.nodes[n].y;
        let r = match op {
            T_NONE => false,
            T_EPS => i == j,
            T_ALLCHAR => j == i + 1,
            T_ALL => true,
            T_RANGE | T_SMTRANGE => {
                if j == i + 1 {
                    (x <= self.w[i]) & (self.w[i] <= y)
                } else {
                    false
                }
            }
            T_STR => {
                let s = &self.p.nodes[n].s;
                if j - i == s.len() {
                    let mut r = true;
                    let mut k = 0;
                    while k < s.len() {
                        r = r & (s[k] == self.w[i + k]);
                        k += 1;
                    }
                    r
                } else {
                    false
                }
            }
            T_CONCAT => {
                let mut r = false;
                let mut k = i;
                while k <= j {
                    let u = self.sem(a, i, k);
                    let v = self.sem(b, k, j);
                    r = r | (u & v);
                    k += 1;
                }
                r
            }
            T_UNION => {
                let u = self.sem(a, i, j);
                let v = self.sem(b, i, j);
                u | v
            }
            T_INTER => {
                let u = self.sem(a, i, j);
                let v = self.sem(b, i, j);
                u & v
            }
            T_DIFF => {
                let u = self.sem(a, i, j);
                let v = self.sem(b, i, j);
                u & !v
            }
            T_COMP => !self.sem(a, i, j),
            T_OPT => {
                let u = self.sem(a, i, j);
                (i == j) | u
            }
            T_STAR | T_PLUS | T_LOOPINF | T_POWER | T_LOOP => {
                // number of repetitions c ranges over 0..cmax (enough for a string of this length, see DESIGN 4)
                let mut r = false;
                let mut c = 0;
                while c <= self.cmax {
                    let ok = match op {
                        T_STAR => true,
                        T_PLUS => c >= 1,
                        T_LOOPINF => x <= c as u32,
                        T_POWER => x == c as u32,
                        _ => (x <= c as u32) & (c as u32 <= y),
                    };
                    let m = self.cnt(a, c, i, j);
                    r = r | (ok & m);
                    c += 1;
                }
                r
            }
            _ => false,
        };
        self.done[idx] = true;
        self.val[idx] = r;
        r
    }
}

/// the terms yielded by iter_derivatives, as 'static references (all terms are leaked, hash-consed nodes)
fn derivs(re: &mut ReManager, e: RegLan) -> Vec<RegLan> {
    let mut v: Vec<RegLan> = Vec::new();
    for d in re.iter_derivatives(e) {
        v.push(unsafe { &*(d as *const RE) });
    }
    v
}

fn any_string(n: usize) -> Vec<u32> {
    let mut v = Vec::new();
    let mut i = 0;
    while i < n {
        v.push(any_char());
        i += 1;
    }
    v
}

fn smt(v: &[u32]) -> SmtString {
    SmtString::from(v)
}

fn prepend(c: u32, w: &[u32]) -> Vec<u32> {
    let mut v = vec![c];
    v.extend_from_slice(w);
    v
}

/// class membership of character c in class cid of e, branch-free from the public char_ranges()
fn in_class(e: RegLan, cid: ClassId, c: u32) -> bool {
    let mut cov = false;
    let mut hit = false;
    let mut i = 0;
    for r in e.char_ranges() {
        let inside = r.contains(c);
        cov = cov | inside;
        if cid == ClassId::Interval(i) {
            hit = inside;
        }
        i += 1;
    }
    match cid {
        ClassId::Interval(_) => hit,
        ClassId::Complement => !cov,
    }
}

// common parameter layout: 0 = api (0 manager, 1 wrappers), 1 = string length n, 2 = bound B on loop counters,
// 3 = extra, 4.. = program tokens
const P0: u32 = 4;

struct Ctx {
    prog: Prog,
    api: u32,
    n: usize,
}

fn ctx() -> Ctx {
    let api = param(0);
    let n = param(1) as usize;
    let b = param(2);
    let mut pi = P0;
    let prog = Prog::decode(&mut pi, b);
    Ctx { prog, api, n }
}

// ---------------------------------------------------------------------------------------------
// C01: membership = denotation; nullable flag
#[no_mangle]
pub extern "C" fn vh_c01_member() {
    let cx = ctx();
    let w = any_string(cx.n);
    let ws = smt(&w);
    let mut sem = Sem::new(&cx.prog, &w);
    let want = sem.whole();
    let empty: [u32; 0] = [];
    let mut sem0 = Sem::new(&cx.prog, &empty);
    let want0 = sem0.whole();
    if cx.api == 0 {
        let mut re = ReManager::new();
        let e = cx.prog.build(&mut re, cx.prog.root);
        check(e.nullable == want0, 1);
        check(re.str_in_re(&ws, e) == want, 2);
    } else if cx.api == 2 {
        // n-ary list constructors; also: same term as the binary constructors build in the same manager
        let mut re = ReManager::new();
        let e = cx.prog.build_l(&mut re, cx.prog.root);
        check(e.nullable == want0, 5);
        check(re.str_in_re(&ws, e) == want, 6);
    } else {
        let e = cx.prog.build_w(cx.prog.root);
        check(e.nullable == want0, 3);
        check(W::str_in_re(&ws, e) == want, 4);
    }
    cover(1);
}

// ---------------------------------------------------------------------------------------------
// C03: derivatives are left quotients; classes are uniform.  extra (param 3): 0 = char/class derivative, 1 = set derivative
#[no_mangle]
pub extern "C" fn vh_c03_deriv() {
    let cx = ctx();
    let what = param(3);
    let c = any_char();
    let w = any_string(cx.n);
    let a = any_u32();
    let b = any_u32();
    assume(a <= b && b <= MAXC);
    let k = any_u64() as usize;
    let cw = prepend(c, &w);
    let mut sem = Sem::new(&cx.prog, &cw);
    let want = sem.whole();
    let ws = smt(&w);
    let mut re = ReManager::new();
    let e = cx.prog.build(&mut re, cx.prog.root);
    if what == 0 {
        let d = re.char_derivative(e, c);
        check(re.str_in_re(&ws, d) == want, 1);
        // str_derivative composes char derivatives
        let d2 = re.str_derivative(e, &smt(&cw));
        let d3 = re.str_derivative(d, &ws);
        check((d2.nullable == want) & (d3.nullable == want), 2);
        // every class id: the class derivative is the derivative for EVERY character of the class
        let ids: Vec<ClassId> = e.class_ids().collect();
        // num_deriv_classes counts the interval classes only (documented)
        check(ids.len() == e.num_deriv_classes() + if e.empty_complement() { 0 } else { 1 }, 3);
        let mut member = false;
        for cid in ids.iter() {
            let inc = in_class(e, *cid, c);
            member = member | inc;
            match re.class_derivative(e, *cid) {
                Ok(dc) => {
                    let r = re.str_in_re(&ws, dc);
                    check(!inc | (r == want), 4);
                }
                Err(_) => check(false, 5),
            }
        }
        // the listed classes cover the alphabet
        check(member, 6);
        // invalid class ids are rejected
        let nint = e.char_ranges().count();
        assume(k >= nint);
        check(re.class_derivative(e, ClassId::Interval(k)) == Err(Error::BadClassId), 7);
        if e.empty_complement() {
            check(re.class_derivative(e, ClassId::Complement) == Err(Error::BadClassId), 8);
        }
        check(e.valid_class_id(ClassId::Interval(k)) == false, 9);
    } else {
        // set derivative: c is an arbitrary member of [a, b]
        assume(a <= c && c <= b);
        let set = CharSet::range(a, b);
        // classification of [a,b] against the class boundaries, branch-free
        let mut inside_one = false;
        let mut disjoint_all = true;
        for r in e.char_ranges() {
            inside_one = inside_one | (r.covers(&set));
            disjoint_all = disjoint_all & ((b < r.pick()) | r.is_before(a));
        }
        match re.set_derivative(e, &set) {
            Ok(d) => {
                check(inside_one | disjoint_all, 10);
                check(re.str_in_re(&ws, d) == want, 11);
            }
            Err(er) => {
                check(!(inside_one | disjoint_all), 12);
                check(er == Error::AmbiguousCharSet, 13);
            }
        }
    }
    cover(1);
}

// ---------------------------------------------------------------------------------------------
// C02 (+ C14, C04 on compiled automata).  extra: 0 = language + totality + inductive step, 1 = structure + minimize
#[no_mangle]
pub extern "C" fn vh_c02_compile() {
    let cx = ctx();
    let what = param(3);
    let c = any_char();
    let x = any_char();
    let w = any_string(cx.n);
    let ws = smt(&w);
    let mut sem = Sem::new(&cx.prog, &w);
    let want = sem.whole();
    let mut re = ReManager::new();
    let e = cx.prog.build(&mut re, cx.prog.root);
    let m = re.compile(e);
    if what == 0 {
        check(m.accepts(&ws) == want, 1);
        // states correspond to the iterated derivatives: a relation R between states and terms is built from
        // (initial state, e) by stepping both sides on class representatives (no state numbering is assumed); then for
        // a symbolic character c, R must be closed: (next(q,c), char_derivative(t,c)) in R, with finality = nullable.
        // Together with C03 this is acceptance = membership for strings of any length.
        let ders: Vec<RegLan> = derivs(&mut re, e);
        check(m.num_states() == ders.len(), 2);
        let mut rel: Vec<(usize, RegLan)> = vec![(m.initial_state().id(), e)];
        let mut i = 0;
        while i < rel.len() && rel.len() <= 4 * ders.len() + 4 {
            let (q, t) = rel[i];
            let st = m.state(q);
            // representatives: one per class of the term and one per class of the state
            let mut reps: Vec<u32> = Vec::new();
            for cid in t.class_ids() {
                reps.push(t.pick_class_rep(cid));
            }
            for p in st.char_picks() {
                reps.push(p);
            }
            for r in reps {
                let q2 = m.next(st, r).id();
                let t2 = re.char_derivative(t, r);
                let mut seen = false;
                for (a, b) in rel.iter() {
                    if *a == q2 && std::ptr::eq(*b, t2) {
                        seen = true;
                    }
                }
                if !seen {
                    rel.push((q2, t2));
                }
            }
            i += 1;
        }
        // R is functional in both directions on a correct compilation: as many pairs as states
        check(rel.len() == ders.len(), 3);
        let mut nf = 0;
        let mut i = 0;
        while i < rel.len() {
            let (q, t) = rel[i];
            let st = m.state(q);
            check(st.is_final() == t.nullable, 4);
            // totality + one inductive step for EVERY character
            let nx = m.next(st, c).id();
            check(nx < m.num_states(), 5);
            let d = re.char_derivative(t, c);
            let mut inrel = false;
            for (a, b) in rel.iter() {
                inrel = inrel | ((*a == nx) & std::ptr::eq(*b, d));
            }
            check(inrel, 6);
            i += 1;
        }
        let mut q = 0;
        while q < m.num_states() {
            if m.state(q).is_final() {
                nf += 1;
            }
            q += 1;
        }
        check(m.num_final_states() == nf, 7);
        // try_compile with a sufficient bound returns the same automaton shape
        match re.try_compile(e, ders.len()) {
            Some(m2) => check(m2.num_states() == ders.len() && m2.accepts(&ws) == want, 8),
            None => check(false, 9),
        }
    } else {
        crate::automata::verif::check_structure(&m, c, x);
        let mut m2 = re.compile(e);
        m2.minimize();
        crate::automata::verif::check_minimized(&m, &m2);
        crate::automata::verif::check_structure(&m2, c, x);
        check(m2.accepts(&ws) == want, 10);
        let mut m3 = re.compile(e);
        m3.remove_unreachable_states();
        check(m3.num_states() == m.num_states(), 11);
    }
    cover(1);
}

// ---------------------------------------------------------------------------------------------
// C05: emptiness and witness
#[no_mangle]
pub extern "C" fn vh_c05_empty() {
    let cx = ctx();
    let w = any_string(cx.n);
    let mut sem = Sem::new(&cx.prog, &w);
    let member = sem.whole();
    let mut re = ReManager::new();
    let e = cx.prog.build(&mut re, cx.prog.root);
    let emp = re.is_empty_re(e);
    let g = re.get_string(e);
    check(emp == g.is_none(), 1);
    match g {
        None => {
            // no string of the explored length is a member
            check(!member, 2);
        }
        Some(w0) => {
            check(w0.is_good(), 3);
            check(re.str_in_re(&w0, e), 4);
            let v: Vec<u32> = w0.iter().copied().collect();
            let mut s0 = Sem::new(&cx.prog, &v);
            check(s0.whole(), 5);
            let m = re.compile(e);
            check(m.accepts(&w0), 6);
        }
    }
    // no nullable derivative <=> empty (the inductive argument of DESIGN 4.C05)
    let any_nullable = derivs(&mut re, e).iter().any(|d| d.nullable);
    check(emp == !any_nullable, 7);
    cover(1);
}

// ---------------------------------------------------------------------------------------------
// C18: start_char / start_class
#[no_mangle]
pub extern "C" fn vh_c18_start() {
    let cx = ctx();
    let c = any_char();
    let c2 = any_char();
    let w = any_string(cx.n);
    let k = any_u64() as usize;
    let cw = prepend(c, &w);
    let mut sem = Sem::new(&cx.prog, &cw);
    let member = sem.whole();
    let mut re = ReManager::new();
    let e = cx.prog.build(&mut re, cx.prog.root);
    let sc = re.start_char(e, c);
    let d = re.char_derivative(e, c);
    let nonempty = !re.is_empty_re(d);
    check(sc == nonempty, 1);
    // a member string starting with c exists => true
    check(!member | sc, 2);
    // true => there is a member string starting with c (witness from the derivative, validated by the oracle)
    if sc {
        match re.get_string(d) {
            Some(v) => {
                let cv = prepend(c, v.as_ref());
                let mut s2 = Sem::new(&cx.prog, &cv);
                check(s2.whole(), 3);
            }
            None => check(false, 4),
        }
    }
    // classes: the answer for the class is the answer for every character of it
    let ids: Vec<ClassId> = e.class_ids().collect();
    for cid in ids.iter() {
        match re.start_class(e, *cid) {
            Ok(b) => {
                if in_class_conc(e, *cid, c2, &mut re) {
                    let d2 = re.char_derivative(e, c2);
                    check(b == !re.is_empty_re(d2), 5);
                }
            }
            Err(_) => check(false, 6),
        }
    }
    let nint = e.char_ranges().count();
    assume(k >= nint);
    check(re.start_class(e, ClassId::Interval(k)) == Err(Error::BadClassId), 7);
    if e.empty_complement() {
        check(re.start_class(e, ClassId::Complement) == Err(Error::BadClassId), 8);
    }
    cover(1);
}

/// forks on class membership (used where the continuation calls code that needs the character's class anyway)
fn in_class_conc(e: RegLan, cid: ClassId, c: u32, _re: &mut ReManager) -> bool {
    in_class(e, cid, c)
}

// ---------------------------------------------------------------------------------------------
// C19: derivative closure; try_compile bound
#[no_mangle]
pub extern "C" fn vh_c19_closure() {
    let cx = ctx();
    let c = any_char();
    let nb = any_u64() as usize;
    let mut re = ReManager::new();
    let e = cx.prog.build(&mut re, cx.prog.root);
    let ders: Vec<RegLan> = derivs(&mut re, e);
    check(ders.len() >= 1, 1);
    check(std::ptr::eq(ders[0], e), 2);
    let mut i = 0;
    while i < ders.len() {
        let mut j = i + 1;
        while j < ders.len() {
            check(!std::ptr::eq(ders[i], ders[j]) && ders[i] != ders[j], 3);
            j += 1;
        }
        // closed under char_derivative for every character
        let d = re.char_derivative(ders[i], c);
        let mut found = false;
        let mut j = 0;
        while j < ders.len() {
            found = found | std::ptr::eq(ders[j], d);
            j += 1;
        }
        check(found, 4);
        i += 1;
    }
    // a second enumeration yields the same sequence
    let again: Vec<RegLan> = derivs(&mut re, e);
    check(again.len() == ders.len(), 5);
    // try_compile: Some exactly when the number of derivatives is within the bound
    let count = ders.len();
    assume(nb <= count + 2);
    match re.try_compile(e, nb) {
        Some(m) => {
            check(count <= nb, 6);
            check(m.num_states() == count, 7);
        }
        None => check(count > nb, 8),
    }
    check(re.try_compile(e, 0).is_none(), 9);
    let m = re.compile(e);
    check(m.num_states() == count, 10);
    cover(1);
}

// ---------------------------------------------------------------------------------------------
// C16: included_in is sound.  Two programs: the second starts right after the first in the token stream.
#[no_mangle]
pub extern "C" fn vh_c16_incl() {
    let n = param(1) as usize;
    let b = param(2);
    let mut pi = P0;
    let p1 = Prog::decode(&mut pi, b);
    let p2 = Prog::decode(&mut pi, b);
    let w = any_string(n);
    let mut s1 = Sem::new(&p1, &w);
    let in1 = s1.whole();
    let mut s2 = Sem::new(&p2, &w);
    let in2 = s2.whole();
    let mut re = ReManager::new();
    let r = p1.build(&mut re, p1.root);
    let s = p2.build(&mut re, p2.root);
    let inc = r.included_in(s);
    check(!inc | !in1 | in2, 1);
    if param(3) == 1 {
        // a union built from both never loses strings
        let u = re.union(r, s);
        check(re.str_in_re(&smt(&w), u) == (in1 | in2), 2);
        let u2 = re.union(s, r);
        check(re.str_in_re(&smt(&w), u2) == (in1 | in2), 3);
    }
    cover(1);
}

// ---------------------------------------------------------------------------------------------
// C07: hash-consing under histories.  extra = number of history steps before and after; each step is chosen by a
// symbolic selector (every interleaving of the menu is explored).
fn history_step(re: &mut ReManager, pool: &mut Vec<RegLan>, sel: u32, x: u32) {
    let last = pool[pool.len() - 1];
    let first = pool[0];
    match sel {
        0 => {
            let r = re.char(x);
            pool.push(r);
        }
        1 => {
            let r = re.concat(last, first);
            pool.push(r);
        }
        2 => {
            let r = re.union(first, last);
            pool.push(r);
        }
        3 => {
            let r = re.complement(last);
            pool.push(r);
        }
        4 => {
            let r = re.char_derivative(last, x);
            pool.push(r);
        }
        5 => {
            let _ = re.compile(last);
        }
        6 => {
            let _ = re.is_empty_re(last);
        }
        _ => {
            let r = re.star(last);
            pool.push(r);
        }
    }
}

#[no_mangle]
pub extern "C" fn vh_c07_hashcons() {
    let cx = ctx();
    // extra = steps | concrete << 4 | sel0 << 8 | sel1 << 12 | sel2 << 16 | sel3 << 20
    let extra = param(3);
    let steps = (extra & 15) as usize;
    let concrete = (extra >> 4) & 1 == 1;
    let w = any_string(cx.n);
    let mut sem = Sem::new(&cx.prog, &w);
    let want = sem.whole();
    let x = any_char();
    let mut sels = [0u32; 8];
    let mut i = 0;
    while i < 2 * steps {
        sels[i] = if concrete { (extra >> (8 + 4 * i as u32)) & 7 } else { pin(any_in(0, 7), 8) };
        i += 1;
    }
    let mut re = ReManager::new();
    let mut pool: Vec<RegLan> = vec![re.all_chars()];
    let mut i = 0;
    while i < steps {
        history_step(&mut re, &mut pool, sels[i], x);
        i += 1;
    }
    let e1 = cx.prog.build(&mut re, cx.prog.root);
    let mut i = 0;
    while i < steps {
        history_step(&mut re, &mut pool, sels[steps + i], x);
        i += 1;
    }
    let e2 = cx.prog.build(&mut re, cx.prog.root);
    check(std::ptr::eq(e1, e2), 1);
    check(e1 == e2, 2);
    // a fresh manager (empty history) denotes the same language
    let mut re0 = ReManager::new();
    let e0 = cx.prog.build(&mut re0, cx.prog.root);
    let ws = smt(&w);
    // what the derivative cache already holds must not matter: in the fresh manager every sub-term is queried first
    // (so derivatives of operands are cached before those of the terms built from them, complements included)
    if (extra >> 5) & 1 == 1 {
        let subs: Vec<RegLan> = sub_terms(e0).collect();
        for t in subs.iter() {
            let _ = re0.str_in_re(&ws, *t);
        }
    }
    check(re0.str_in_re(&ws, e0) == want, 3);
    check(re.str_in_re(&ws, e1) == want, 4);
    let ce = re.complement(e1);
    check(re.str_in_re(&ws, ce) == !want, 8);
    check(re.str_in_re(&ws, e1) == want, 9);
    let ce0 = re0.complement(e0);
    check(re0.str_in_re(&ws, ce0) == !want, 10);
    // equality is identity, complement is an involution without fixed points
    pool.push(e1);
    let mut i = 0;
    while i < pool.len() {
        let t = pool[i];
        let ct = re.complement(t);
        check(!std::ptr::eq(ct, t) && ct != t, 5);
        check(std::ptr::eq(re.complement(ct), t), 6);
        let mut j = 0;
        while j < pool.len() {
            check((pool[i] == pool[j]) == std::ptr::eq(pool[i], pool[j]), 7);
            j += 1;
        }
        i += 1;
    }
    cover(1);
}

// C07: same, through the wrappers (history lives in the thread-local manager); operand order of union / inter varied
#[no_mangle]
pub extern "C" fn vh_c07_wrappers() {
    let cx = ctx();
    let w = any_string(cx.n);
    let mut sem = Sem::new(&cx.prog, &w);
    let want = sem.whole();
    let x = any_char();
    let sel = pin(any_in(0, 3), 4);
    let e1 = cx.prog.build_w(cx.prog.root);
    // unrelated terms in between
    let a = W::re_range(&SmtString::from(x), &SmtString::from(x));
    let _h = match sel {
        0 => W::re_concat(a, e1),
        1 => W::re_union(a, e1),
        2 => W::re_comp(W::re_star(a)),
        _ => W::re_inter(W::re_comp(a), e1),
    };
    let _ = W::str_in_re(&smt(&[x]), e1);
    let e2 = cx.prog.build_w(cx.prog.root);
    check(std::ptr::eq(e1, e2), 1);
    check(W::str_in_re(&smt(&w), e2) == want, 2);
    // operand order (operands are sorted by id, i.e. by history): the LANGUAGE must not depend on it; the same call
    // repeated gives the same term
    let in_a = if w.len() == 1 { w[0] == x } else { false };
    let wsx = smt(&w);
    check(W::str_in_re(&wsx, W::re_union(a, e1)) == (in_a | want), 3);
    check(W::str_in_re(&wsx, W::re_union(e1, a)) == (in_a | want), 4);
    if param(3) == 1 {
        check(W::str_in_re(&wsx, W::re_inter(a, e1)) == (in_a & want), 5);
        check(W::str_in_re(&wsx, W::re_inter(e1, a)) == (in_a & want), 7);
        check(W::str_in_re(&wsx, W::re_union_list(vec![a, e1, a])) == (in_a | want), 8);
    }
    check(std::ptr::eq(W::re_union(a, e1), W::re_union(a, e1)), 9);
    check(std::ptr::eq(W::re_comp(W::re_comp(e1)), e1), 6);
    cover(1);
}

// ---------------------------------------------------------------------------------------------
// C10: replace_re / replace_re_all.  extra = replacement length; uses the wrappers (the only entry points)
#[no_mangle]
pub extern "C" fn vh_c10_replace() {
    let cx = ctx();
    let tl = param(3) as usize;
    let s = any_string(cx.n);
    let t = any_string(tl);
    let n = cx.n;
    let mut sem = Sem::new(&cx.prog, &s);
    // match table
    let mut mt = vec![vec![false; n + 1]; n + 1];
    let mut i = 0;
    while i <= n {
        let mut j = i;
        while j <= n {
            mt[i][j] = sem.root(i, j);
            j += 1;
        }
        i += 1;
    }
    let e = cx.prog.build_w(cx.prog.root);
    let ss = smt(&s);
    let ts = smt(&t);
    // replace_re: leftmost, then shortest (possibly empty) match
    let out = W::str_replace_re(&ss, e, &ts);
    check(out.is_good(), 1);
    let o: Vec<u32> = out.iter().copied().collect();
    let mut none = true;
    let mut ok = false;
    let mut i = 0;
    while i <= n {
        let mut j = i;
        while j <= n {
            let exp = cat3v(&s[..i], &t, &s[j..]);
            ok = ok | (none & mt[i][j] & eqv(&o, &exp));
            none = none & !mt[i][j];
            j += 1;
        }
        i += 1;
    }
    check(ok | (none & eqv(&o, &s)), 2);
    // replace_re_all: left to right, leftmost shortest NON-EMPTY matches
    let out2 = W::str_replace_re_all(&ss, e, &ts);
    check(out2.is_good(), 3);
    let o2: Vec<u32> = out2.iter().copied().collect();
    check(rra_ok(&s, &t, &mt, &o2, 0, 0), 4);
    cover(1);
}

fn cat3v(a: &[u32], b: &[u32], c: &[u32]) -> Vec<u32> {
    let mut x = a.to_vec();
    x.extend_from_slice(b);
    x.extend_from_slice(c);
    x
}

fn eqv(a: &[u32], b: &[u32]) -> bool {
    if a.len() != b.len() {
        return false;
    }
    let mut r = true;
    let mut i = 0;
    while i < a.len() {
        r = r & (a[i] == b[i]);
        i += 1;
    }
    r
}

/// out[jo..] is the SMT-LIB replace_re_all image of s[i0..]  (memoised on the concrete pair (i0, jo))
fn rra_ok(s: &[u32], t: &[u32], mt: &Vec<Vec<bool>>, out: &[u32], i0: usize, jo: usize) -> bool {
    let w = out.len() + 1;
    let mut done = vec![false; (s.len() + 1) * w];
    let mut val = vec![false; (s.len() + 1) * w];
    rra_rec(s, t, mt, out, i0, jo, &mut done, &mut val)
}

fn rra_rec(s: &[u32], t: &[u32], mt: &Vec<Vec<bool>>, out: &[u32], i0: usize, jo: usize, done: &mut Vec<bool>, val: &mut Vec<bool>) -> bool {
    let n = s.len();
    let w = out.len() + 1;
    if jo > out.len() {
        return false;
    }
    let key = i0 * w + jo;
    if done[key] {
        return val[key];
    }
    let mut none = true;
    let mut ok = false;
    let mut i = i0;
    while i < n {
        let mut j = i + 1;
        while j <= n {
            let seg = i - i0;
            if jo + seg + t.len() <= out.len() {
                let copy = eqv(&out[jo..jo + seg], &s[i0..i]) & eqv(&out[jo + seg..jo + seg + t.len()], t);
                let rest = rra_rec(s, t, mt, out, j, jo + seg + t.len(), done, val);
                ok = ok | (none & mt[i][j] & copy & rest);
            }
            none = none & !mt[i][j];
            j += 1;
        }
        i += 1;
    }
    let rest = if out.len() - jo == n - i0 { eqv(&out[jo..], &s[i0..]) } else { false };
    let r = ok | (none & rest);
    done[key] = true;
    val[key] = r;
    r
}
