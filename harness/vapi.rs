// Harness API shared by all harness modules.  Included into the scratch copy of the crate as
// `crate::vapi` (cfg(verif) only).  Two implementations:
//  * engine mode (default): the functions are unresolved `extern "C"` symbols that llsymex intercepts;
//  * native mode (cfg(verif_native)): values are popped from a replay vector, so that the very same
//    harness body runs as an ordinary program against the natively compiled crate.
#![allow(dead_code, missing_docs, missing_debug_implementations, clippy::all)]

#[cfg(not(verif_native))]
mod imp {
    extern "C" {
        pub fn verif_any_u8() -> u8;
        pub fn verif_any_u32() -> u32;
        pub fn verif_any_u64() -> u64;
        pub fn verif_param(i: u32) -> u32;
        pub fn verif_assume(c: bool);
        pub fn verif_assert(c: bool, id: u32);
        pub fn verif_cover(id: u32);
        pub fn verif_expect_panic(id: u32);
        pub fn verif_note(tag: u32, v: u32);
    }
}

#[cfg(verif_native)]
mod imp {
    use std::cell::RefCell;
    thread_local! {
        pub static INPUTS: RefCell<(Vec<u64>, usize)> = RefCell::new((Vec::new(), 0));
        pub static PARAMS: RefCell<Vec<u32>> = RefCell::new(Vec::new());
        pub static EXPECT_PANIC: RefCell<u32> = RefCell::new(0);
    }
    fn pop() -> u64 {
        INPUTS.with(|x| {
            let mut x = x.borrow_mut();
            let i = x.1;
            x.1 += 1;
            if i < x.0.len() { x.0[i] } else { 0 }
        })
    }
    pub unsafe fn verif_any_u8() -> u8 { pop() as u8 }
    pub unsafe fn verif_any_u32() -> u32 { pop() as u32 }
    pub unsafe fn verif_any_u64() -> u64 { pop() }
    pub unsafe fn verif_param(i: u32) -> u32 {
        PARAMS.with(|p| { let p = p.borrow(); if (i as usize) < p.len() { p[i as usize] } else { 0 } })
    }
    pub unsafe fn verif_assume(c: bool) {
        if !c {
            println!("VERIF-ASSUME-FALSE");
            std::process::exit(3);
        }
    }
    pub unsafe fn verif_assert(c: bool, id: u32) {
        if !c {
            println!("VERIF-ASSERT-FAIL id={}", id);
            std::process::exit(101);
        }
    }
    pub unsafe fn verif_cover(_id: u32) {}
    pub unsafe fn verif_expect_panic(id: u32) { EXPECT_PANIC.with(|e| *e.borrow_mut() = id); }
    pub unsafe fn verif_note(tag: u32, v: u32) { println!("VERIF-NOTE {} {}", tag, v); }

    /// entry point used by the generated replay binary
    pub fn replay_setup(params: Vec<u32>, inputs: Vec<u64>) {
        PARAMS.with(|p| *p.borrow_mut() = params);
        INPUTS.with(|x| *x.borrow_mut() = (inputs, 0));
    }
    pub fn expected_panic() -> u32 { EXPECT_PANIC.with(|e| *e.borrow()) }
}

#[cfg(verif_native)]
pub use imp::{expected_panic, replay_setup};

#[inline(never)]
pub fn any_u8() -> u8 { unsafe { imp::verif_any_u8() } }
#[inline(never)]
pub fn any_u32() -> u32 { unsafe { imp::verif_any_u32() } }
#[inline(never)]
pub fn any_u64() -> u64 { unsafe { imp::verif_any_u64() } }
#[inline(never)]
pub fn any_i32() -> i32 { unsafe { imp::verif_any_u32() as i32 } }
#[inline(never)]
pub fn any_bool() -> bool { unsafe { imp::verif_any_u8() & 1 == 1 } }
/// concrete instance parameter i (chosen by the driver, recorded in evidence and replay files)
#[inline(never)]
pub fn param(i: u32) -> u32 { unsafe { imp::verif_param(i) } }
#[inline(never)]
pub fn assume(c: bool) { unsafe { imp::verif_assume(c) } }
/// assertion: the engine asks the solver for inputs that make `c` false on this path
#[inline(never)]
pub fn check(c: bool, id: u32) { unsafe { imp::verif_assert(c, id) } }
/// reachability witness
#[inline(never)]
pub fn cover(id: u32) { unsafe { imp::verif_cover(id) } }
/// from here on, a panic is the *required* outcome (documented panics); returning normally is a violation
#[inline(never)]
pub fn expect_panic(id: u32) { unsafe { imp::verif_expect_panic(id) } }
#[inline(never)]
pub fn note(tag: u32, v: u32) { unsafe { imp::verif_note(tag, v) } }

pub const MAXC: u32 = 0x2FFFF;

/// symbolic character of the SMT-LIB alphabet
pub fn any_char() -> u32 {
    let c = any_u32();
    assume(c <= MAXC);
    c
}

/// symbolic value in [lo, hi]
pub fn any_in(lo: u32, hi: u32) -> u32 {
    let c = any_u32();
    assume(lo <= c && c <= hi);
    c
}

/// make a small symbolic value concrete on each path (forks over 0..n)
pub fn pin(x: u32, n: u32) -> u32 {
    let mut k = 0;
    while k < n {
        if x == k {
            return k;
        }
        k += 1;
    }
    assume(false);
    0
}
