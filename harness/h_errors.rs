// engine self-test harnesses (attached to src/errors.rs, the smallest module)
#![allow(dead_code, missing_docs, clippy::all)]
use crate::vapi::*;

#[no_mangle]
pub extern "C" fn vh_selftest_ok() {
    let n = param(0) as usize;
    let mut v: Vec<u32> = Vec::new();
    let mut i = 0;
    while i < n {
        v.push(any_in(0, 100));
        i += 1;
    }
    v.sort();
    let mut i = 0;
    while i + 1 < n {
        check(v[i] <= v[i + 1], 1);
        i += 1;
    }
    let s: u32 = v.iter().sum();
    check(s <= 100 * n as u32, 3);
    cover(1);
}

#[no_mangle]
pub extern "C" fn vh_selftest_bad() {
    let n = param(0) as usize;
    let x = any_u32();
    let y = any_u32();
    // wrong claim: the solver must produce x = u32::MAX-ish values
    check(x.wrapping_add(y) >= x, 2);
    // overflow panic in dev profile must be reported as panic
    let z = x + (n as u32);
    check(z >= x, 4);
    cover(1);
}
