// C14: CompactTableBuilder / CompactTable driven directly: which cells are non-default is symbolic, values symbolic.
#![allow(dead_code, missing_docs, unused_imports, clippy::all)]

use super::*;
use crate::vapi::*;

// params: 0 = N states, 1 = M alphabet size, 2 = 1 if defaults are declared (else default 0 and all cells given)
#[no_mangle]
pub extern "C" fn vh_c14_table() {
    let n = param(0);
    let m = param(1);
    let with_default = param(2) == 1;
    let mut b = CompactTableBuilder::new(n, m);
    let mut expect: Vec<Vec<u32>> = Vec::new();
    let mut i = 0;
    while i < n {
        let d = if with_default { any_in(0, n - 1) } else { 0 };
        if with_default {
            b.set_default(i, d);
        }
        let mut row = Vec::new();
        let mut suc: Vec<(u32, u32)> = Vec::new();
        let mut c = 0;
        while c < m {
            let given = if with_default { any_bool() } else { true };
            if given {
                let v = any_in(0, n - 1);
                suc.push((c, v));
                row.push(v);
            } else {
                row.push(d);
            }
            c += 1;
        }
        b.set_successors(i, &suc);
        expect.push(row);
        i += 1;
    }
    let t = b.build();
    check(t.num_states() == n as usize && t.alphabet_size() == m as usize, 1);
    let mut i = 0;
    while i < n {
        let mut c = 0;
        while c < m {
            check(t.eval(i, c) == expect[i as usize][c as usize], 2);
            c += 1;
        }
        i += 1;
    }
    cover(1);
}
