// Harnesses for src/character_sets.rs (child module: sees private items).
// C11 CharPartition queries, C12 merge_partitions, C20 CharSet algebra.
#![allow(dead_code, missing_docs, unused_imports, clippy::all)]

use super::*;
use crate::vapi::*;

const NMAX: usize = 4;

/// n sorted disjoint symbolic intervals over the full alphabet (adjacent, touching 0 / MAX allowed)
fn any_intervals(n: usize) -> [(u32, u32); NMAX] {
    let mut v = [(0u32, 0u32); NMAX];
    let mut i = 0;
    while i < n {
        let a = any_u32();
        let b = any_u32();
        assume(a <= b && b <= MAXC);
        if i > 0 {
            assume(a > v[i - 1].1);
        }
        v[i] = (a, b);
        i += 1;
    }
    v
}

/// n arbitrary symbolic intervals (any order, may overlap)
fn any_sets(n: usize) -> [(u32, u32); NMAX] {
    let mut v = [(0u32, 0u32); NMAX];
    let mut i = 0;
    while i < n {
        let a = any_u32();
        let b = any_u32();
        assume(a <= b && b <= MAXC);
        v[i] = (a, b);
        i += 1;
    }
    v
}

fn build_push(v: &[(u32, u32); NMAX], n: usize) -> CharPartition {
    let mut p = CharPartition::new();
    let mut i = 0;
    while i < n {
        p.push(v[i].0, v[i].1);
        i += 1;
    }
    p
}

const PERMS3: [[usize; 3]; 6] = [[0, 1, 2], [0, 2, 1], [1, 0, 2], [1, 2, 0], [2, 0, 1], [2, 1, 0]];
const PERMS4: [[usize; 4]; 24] = [
    [0, 1, 2, 3], [0, 1, 3, 2], [0, 2, 1, 3], [0, 2, 3, 1], [0, 3, 1, 2], [0, 3, 2, 1],
    [1, 0, 2, 3], [1, 0, 3, 2], [1, 2, 0, 3], [1, 2, 3, 0], [1, 3, 0, 2], [1, 3, 2, 0],
    [2, 0, 1, 3], [2, 0, 3, 1], [2, 1, 0, 3], [2, 1, 3, 0], [2, 3, 0, 1], [2, 3, 1, 0],
    [3, 0, 1, 2], [3, 0, 2, 1], [3, 1, 0, 2], [3, 1, 2, 0], [3, 2, 0, 1], [3, 2, 1, 0],
];

fn perm(n: usize, k: usize, i: usize) -> usize {
    match n {
        0 | 1 => 0,
        2 => if k % 2 == 0 { i } else { 1 - i },
        3 => PERMS3[k % 6][i],
        _ => PERMS4[k % 24][i],
    }
}

/// build the partition for intervals v[0..n] in the way selected by `mode`
/// 0: push; 1: try_from_iter on a permutation (param 2); 2: from_set (n must be 1); 3: try_from_list on a permutation
fn build_mode(v: &[(u32, u32); NMAX], n: usize, mode: u32, pk: usize) -> CharPartition {
    match mode {
        0 => build_push(v, n),
        2 => CharPartition::from_set(&CharSet::range(v[0].0, v[0].1)),
        _ => {
            let mut l: Vec<CharSet> = Vec::new();
            let mut i = 0;
            while i < n {
                let j = perm(n, pk, i);
                l.push(CharSet::range(v[j].0, v[j].1));
                i += 1;
            }
            let r = if mode == 1 { CharPartition::try_from_iter(l.iter().copied()) } else { CharPartition::try_from_list(&l) };
            match r {
                Ok(p) => p,
                Err(_) => {
                    check(false, 100); // disjoint inputs must be accepted
                    CharPartition::new()
                }
            }
        }
    }
}

fn inside(v: &[(u32, u32); NMAX], i: usize, x: u32) -> bool {
    (v[i].0 <= x) & (x <= v[i].1)
}

fn covered(v: &[(u32, u32); NMAX], n: usize, x: u32) -> bool {
    let mut r = false;
    let mut i = 0;
    while i < n {
        r = r | inside(v, i, x);
        i += 1;
    }
    r
}

/// spec: complement class is empty iff the intervals tile [0, MAX]
fn tiles(v: &[(u32, u32); NMAX], n: usize) -> bool {
    if n == 0 {
        return false;
    }
    let mut r = (v[0].0 == 0) & (v[n - 1].1 == MAXC);
    let mut i = 1;
    while i < n {
        r = r & (v[i - 1].1.wrapping_add(1) == v[i].0);
        i += 1;
    }
    r
}

// ---------------------------------------------------------------------------------------------
// C11: params: 0 = n, 1 = construction mode, 2 = permutation index, 3 = query group
//   group 0: class_of_char + structure; 1: interval_cover/class_of_set/good_char_set;
//   group 2: complement witness / num_classes / valid_class_id / class_ids / picks
#[no_mangle]
pub extern "C" fn vh_c11_queries() {
    let n = param(0) as usize;
    let mode = param(1);
    let pk = param(2) as usize;
    let group = param(3);
    let v = any_intervals(n);
    let p = build_mode(&v, n, mode, pk);

    // structure: same intervals in sorted order whatever the construction
    check(p.len() == n, 1);
    let mut i = 0;
    while i < n {
        check(p.get(i) == v[i], 2);
        check((p.start(i) == v[i].0) & (p.end(i) == v[i].1), 3);
        check(p.interval(i) == CharSet::range(v[i].0, v[i].1), 4);
        i += 1;
    }
    check(p.get(n) == (MAXC + 1, MAXC + 1), 5);
    check(p.is_empty() == (n == 0), 6);

    if group == 0 {
        let x = any_char();
        match p.class_of_char(x) {
            ClassId::Interval(i) => {
                check(i < n, 10);
                if i < n {
                    check(inside(&v, i, x), 11);
                }
            }
            ClassId::Complement => check(!covered(&v, n, x), 12),
        }
        cover(1);
    } else if group == 1 {
        let a = any_u32();
        let b = any_u32();
        assume(a <= b && b <= MAXC);
        let s = CharSet::range(a, b);
        // spec-level classification, branch-free
        let mut cov_any = false;
        let mut disj_all = true;
        let mut i = 0;
        while i < n {
            cov_any = cov_any | ((v[i].0 <= a) & (b <= v[i].1));
            disj_all = disj_all & ((b < v[i].0) | (a > v[i].1));
            i += 1;
        }
        let r = p.interval_cover(&s);
        match r {
            CoverResult::CoveredBy(i) => {
                check(i < n, 20);
                if i < n {
                    check((v[i].0 <= a) & (b <= v[i].1), 21);
                }
            }
            CoverResult::DisjointFromAll => check(disj_all, 22),
            CoverResult::Overlaps => check(!cov_any & !disj_all, 23),
        }
        match p.class_of_set(&s) {
            Ok(ClassId::Interval(i)) => check(r == CoverResult::CoveredBy(i), 24),
            Ok(ClassId::Complement) => check(r == CoverResult::DisjointFromAll, 25),
            Err(e) => check((r == CoverResult::Overlaps) & (e == Error::AmbiguousCharSet), 26),
        }
        check(p.good_char_set(&s) == (cov_any | disj_all), 27);
        cover(2);
    } else {
        let w = p.pick_complement();
        let t = tiles(&v, n);
        check(w <= MAXC + 1, 30);
        check(p.empty_complement() == t, 31);
        check((w == MAXC + 1) == t, 32);
        check((w > MAXC) | !covered(&v, n, w), 33);
        // a witness outside the alphabet means: every character is covered (which uncovered character is picked
        // otherwise is not part of the property)
        let y = any_char();
        check((w <= MAXC) | covered(&v, n, y), 34);
        check(p.num_classes() == if t { n } else { n + 1 }, 35);
        let k = any_u64() as usize;
        check(p.valid_class_id(ClassId::Interval(k)) == (k < n), 36);
        check(p.valid_class_id(ClassId::Complement) == !t, 37);
        // class_ids and picks
        let ids: Vec<ClassId> = p.class_ids().collect();
        check(ids.len() == p.num_classes(), 38);
        check(p.class_ids().size_hint() == (ids.len(), Some(ids.len())), 39);
        let picks: Vec<u32> = p.picks().collect();
        check(picks.len() == ids.len(), 40);
        let mut i = 0;
        while i < ids.len() && i < picks.len() {
            if i < n {
                check(ids[i] == ClassId::Interval(i), 41);
                check(inside(&v, i, picks[i]), 42);
                check(inside(&v, i, p.pick(i)), 43);
                check(inside(&v, i, p.pick_in_class(ClassId::Interval(i))), 44);
            } else {
                check(ids[i] == ClassId::Complement, 45);
                check((picks[i] <= MAXC) & !covered(&v, n, picks[i]), 46);
                check(p.pick_in_class(ClassId::Complement) == picks[i], 47);
            }
            i += 1;
        }
        let m = p.ranges().count();
        check(m == n, 48);
        cover(3);
    }
}

// C11: try_from_iter succeeds exactly on pairwise disjoint inputs and is order independent
// params: 0 = n, 1 = api (1 iter / 3 list)
#[no_mangle]
pub extern "C" fn vh_c11_try_from() {
    let n = param(0) as usize;
    let api = param(1);
    let v = any_sets(n);
    let mut disjoint = true;
    let mut i = 0;
    while i < n {
        let mut j = i + 1;
        while j < n {
            disjoint = disjoint & ((v[i].1 < v[j].0) | (v[j].1 < v[i].0));
            j += 1;
        }
        i += 1;
    }
    let mut l: Vec<CharSet> = Vec::new();
    let mut i = 0;
    while i < n {
        l.push(CharSet::range(v[i].0, v[i].1));
        i += 1;
    }
    let r = if api == 1 { CharPartition::try_from_iter(l.iter().copied()) } else { CharPartition::try_from_list(&l) };
    match r {
        Err(e) => {
            check(!disjoint, 50);
            check(e == Error::NonDisjointCharSets, 51);
        }
        Ok(p) => {
            check(disjoint, 52);
            check(p.len() == n, 53);
            // sorted, and a permutation of the input: every input interval appears
            let mut i = 0;
            while i + 1 < p.len() {
                check(p.end(i) < p.start(i + 1), 54);
                i += 1;
            }
            let mut i = 0;
            while i < n {
                let mut found = false;
                let mut j = 0;
                while j < p.len() {
                    found = found | (p.get(j) == v[i]);
                    j += 1;
                }
                check(found, 55);
                i += 1;
            }
            // same partition (incl. witness) as the sorted push construction, and as the reversed input order
            let mut q = CharPartition::new();
            let mut j = 0;
            while j < p.len() {
                let (a, b) = p.get(j);
                q.push(a, b);
                j += 1;
            }
            check(p.len() == q.len() && p.empty_complement() == q.empty_complement(), 56);
            let mut lr = l.clone();
            lr.reverse();
            match CharPartition::try_from_list(&lr) {
                Ok(p2) => check(p2 == p, 57),
                Err(_) => check(false, 58),
            }
            // complement witness of the result is right
            let w = p.pick_complement();
            let y = any_char();
            let mut cov_y = false;
            let mut cov_w = false;
            let mut i = 0;
            while i < n {
                cov_y = cov_y | ((v[i].0 <= y) & (y <= v[i].1));
                cov_w = cov_w | ((v[i].0 <= w) & (w <= v[i].1));
                i += 1;
            }
            check((w <= MAXC) | cov_y, 59);
            check((w <= MAXC + 1) & !cov_w, 60);
        }
    }
    cover(4);
}

// ---------------------------------------------------------------------------------------------
// C20: CharSet interval algebra.  param 0 = group
fn any_set() -> (u32, u32, CharSet) {
    let a = any_u32();
    let b = any_u32();
    assume(a <= b && b <= MAXC);
    (a, b, CharSet::range(a, b))
}

#[no_mangle]
pub extern "C" fn vh_c20_charset() {
    let group = param(0);
    let (a, b, s) = any_set();
    let (c, d, t) = any_set();
    let x = any_u32(); // any u32, not only characters
    let in_s = (a <= x) & (x <= b);
    let in_t = (c <= x) & (x <= d);
    if group == 0 {
        check(s.contains(x) == in_s, 1);
        // covers: sound for every x, complete by witnesses c, d
        let cv = s.covers(&t);
        check(!cv | !in_t | in_s, 2);
        check(cv | !((a <= c) & (c <= b)) | !((a <= d) & (d <= b)), 3);
        // is_before / is_after against members: y in s
        let y = any_u32();
        assume(a <= y && y <= b);
        check(!s.is_before(x) | (y < x), 4);
        check(s.is_before(x) | (b >= x), 5);
        check(!s.is_after(x) | (x < y), 6);
        check(s.is_after(x) | (x >= a), 7);
        check(s.size() == b.wrapping_sub(a).wrapping_add(1), 8);
        check(s.size() >= 1, 9);
        check(s.is_singleton() == (a == b), 10);
        check(s.is_singleton() == (s.size() == 1), 11);
        check(s.is_alphabet() == ((a == 0) & (b == MAXC)), 12);
        check(s.is_alphabet() == (s.size() == MAXC + 1), 13);
        let p = s.pick();
        check((a <= p) & (p <= b), 14);
        check(CharSet::singleton(a) == CharSet::range(a, a), 15);
        check(CharSet::all_chars() == CharSet::range(0, MAXC), 16);
        cover(1);
    } else if group == 1 {
        match s.inter(&t) {
            Some(u) => {
                check(u.start <= u.end, 20);
                check(u.contains(x) == (in_s & in_t), 21);
            }
            None => {
                check(!(in_s & in_t), 22);
                // really empty: the two witnesses max(start) and min(end) are not common members
                check((b < c) | (d < a), 23);
            }
        }
        match s.union(&t) {
            Some(u) => {
                check(u.start <= u.end && u.end <= MAXC, 24);
                check(u.contains(x) == (in_s | in_t), 25);
            }
            None => {
                // not an interval: a character strictly between the two sets exists
                check((b.wrapping_add(1) < c) | (d.wrapping_add(1) < a), 26);
            }
        }
        // union is Some exactly when overlapping or adjacent
        let gap = (b.wrapping_add(1) < c) | (d.wrapping_add(1) < a);
        check(s.union(&t).is_none() == gap, 27);
        check(s.inter(&t) == t.inter(&s), 28);
        check(s.union(&t) == t.union(&s), 29);
        cover(2);
    } else if group == 2 {
        use std::cmp::Ordering;
        let r = s.partial_cmp(&t);
        match r {
            Some(Ordering::Equal) => check((a == c) & (b == d), 30),
            Some(Ordering::Less) => check(b < c, 31),
            Some(Ordering::Greater) => check(a > d, 32),
            None => check(!((a == c) & (b == d)) & !(b < c) & !(a > d), 33),
        }
        check((s == t) == ((a == c) & (b == d)), 34);
        check((s < t) == (b < c), 35);
        check((s > t) == (a > d), 36);
        cover(3);
    } else {
        // inter_list over k = param(1) sets
        let k = param(1) as usize;
        let mut l: Vec<CharSet> = Vec::new();
        let mut mem = true;
        let mut i = 0;
        while i < k {
            let (e, f, u) = any_set();
            mem = mem & (e <= x) & (x <= f);
            l.push(u);
            i += 1;
        }
        match CharSet::inter_list(&l) {
            Some(u) => {
                check(u.start <= u.end, 40);
                check(u.contains(x) == (mem & (x <= MAXC)), 41);
            }
            None => check(!mem, 42),
        }
        if k == 0 {
            check(CharSet::inter_list(&l) == Some(CharSet::all_chars()), 43);
        }
        // None only when really empty: max of starts > min of ends
        let mut lo = 0u32;
        let mut hi = MAXC;
        let mut i = 0;
        while i < k {
            lo = if l[i].start > lo { l[i].start } else { lo };
            hi = if l[i].end < hi { l[i].end } else { hi };
            i += 1;
        }
        check(CharSet::inter_list(&l).is_none() == (lo > hi), 44);
        cover(4);
    }
}

// ---------------------------------------------------------------------------------------------
// C12: merge_partitions.  params: 0 = n, 1 = m
fn same_class(v: &[(u32, u32)], x: u32, y: u32) -> bool {
    let mut both = false;
    let mut cx = false;
    let mut cy = false;
    let mut i = 0;
    while i < v.len() {
        let ix = (v[i].0 <= x) & (x <= v[i].1);
        let iy = (v[i].0 <= y) & (y <= v[i].1);
        both = both | (ix & iy);
        cx = cx | ix;
        cy = cy | iy;
        i += 1;
    }
    both | (!cx & !cy)
}

fn cov(v: &[(u32, u32)], x: u32) -> bool {
    let mut c = false;
    let mut i = 0;
    while i < v.len() {
        c = c | ((v[i].0 <= x) & (x <= v[i].1));
        i += 1;
    }
    c
}

fn intervals_of(p: &CharPartition) -> Vec<(u32, u32)> {
    let mut r = Vec::new();
    let mut i = 0;
    while i < p.len() {
        r.push(p.get(i));
        i += 1;
    }
    r
}

fn check_merge_result(r: &CharPartition, v1: &[(u32, u32)], v2: &[(u32, u32)], x: u32, y: u32, z: u32) {
    let rv = intervals_of(r);
    // (iv) sorted, disjoint, well formed
    let mut i = 0;
    while i < rv.len() {
        check((rv[i].0 <= rv[i].1) & (rv[i].1 <= MAXC), 1);
        if i > 0 {
            check(rv[i - 1].1 < rv[i].0, 2);
        }
        i += 1;
    }
    // (i) refinement
    check(!same_class(&rv, x, y) | (same_class(v1, x, y) & same_class(v2, x, y)), 3);
    // (ii) maximality on adjacent characters
    check(same_class(&rv, z, z + 1) == (same_class(v1, z, z + 1) & same_class(v2, z, z + 1)), 4);
    // (iii) complement of the result = intersection of the complements
    check(cov(&rv, x) == (cov(v1, x) | cov(v2, x)), 5);
    let w = r.pick_complement();
    check(w <= MAXC + 1, 6);
    check((w > MAXC) | !(cov(v1, w) | cov(v2, w)), 7);
    check((w <= MAXC) | cov(v1, y) | cov(v2, y), 8);
    check(r.empty_complement() == (w > MAXC), 9);
}

#[no_mangle]
pub extern "C" fn vh_c12_merge() {
    let n = param(0) as usize;
    let m = param(1) as usize;
    let v1 = any_intervals(n);
    let v2 = any_intervals(m);
    // all symbolic inputs are drawn (and constrained) before the code under test runs
    let x = any_char();
    let y = any_char();
    let z = any_u32();
    assume(z < MAXC);
    let p1 = build_push(&v1, n);
    let p2 = build_push(&v2, m);
    let r = merge_partitions(&p1, &p2);
    check_merge_result(&r, &v1[..n], &v2[..m], x, y, z);
    cover(1);
}

// C12: algebraic laws: commutative, idempotent, empty neutral, list fold independent of order
// params: 0 = n1, 1 = n2, 2 = n3
#[no_mangle]
pub extern "C" fn vh_c12_laws() {
    let n = [param(0) as usize, param(1) as usize, param(2) as usize];
    let v = [any_intervals(n[0]), any_intervals(n[1]), any_intervals(n[2])];
    let x = any_char();
    let z = any_u32();
    assume(z < MAXC);
    let p = [build_push(&v[0], n[0]), build_push(&v[1], n[1]), build_push(&v[2], n[2])];
    let e = CharPartition::new();
    check(merge_partitions(&p[0], &e) == p[0], 20);
    check(merge_partitions(&e, &p[0]) == p[0], 21);
    check(merge_partitions(&p[0], &p[0]) == p[0], 22);
    let m01 = merge_partitions(&p[0], &p[1]);
    check(m01 == merge_partitions(&p[1], &p[0]), 23);
    let l0 = merge_partition_list(vec![&p[0], &p[1], &p[2]].into_iter());
    check(l0 == merge_partitions(&m01, &p[2]), 24);
    let mut k = 0;
    while k < 6 {
        let q = PERMS3[k];
        let l = merge_partition_list(vec![&p[q[0]], &p[q[1]], &p[q[2]]].into_iter());
        check(l == l0, 25);
        k += 1;
    }
    check(merge_partition_list(vec![&e, &p[0], &e].into_iter()) == p[0], 26);
    let none: Vec<&CharPartition> = Vec::new();
    check(merge_partition_list(none.into_iter()) == e, 27);
    // the folded result satisfies the pointwise spec against all three
    let rv = intervals_of(&l0);
    check(cov(&rv, x) == (cov(&v[0][..n[0]], x) | cov(&v[1][..n[1]], x) | cov(&v[2][..n[2]], x)), 28);
    check(same_class(&rv, z, z + 1)
        == (same_class(&v[0][..n[0]], z, z + 1) & same_class(&v[1][..n[1]], z, z + 1) & same_class(&v[2][..n[2]], z, z + 1)), 29);
    cover(2);
}
