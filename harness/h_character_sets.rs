// Harnesses for src/character_sets.rs (child module: sees private items).
// C11 CharPartition queries, C12 merge_partitions, C20 CharSet algebra.
#![allow(dead_code, missing_docs, unused_imports, clippy::all)]

use super::*;
use crate::vapi::*;

const NMAX: usize = 4;

/// n sorted disjoint symbolic intervals over the full alphabet (adjacent, touching 0 / MAX allowed)
fn any_intervals(n: usize) -> [(u32, u32); NMAX] {
    let mut v = [(0u32, 0u32); NMAX];
    let mut i = 0;
    while i < n {
        let a = any_u32();
        let b = any_u32();
        assume(a <= b && b <= MAXC);
        if i > 0 {
            assume(a > v[i - 1].1);
        }
        v[i] = (a, b);
        i += 1;
    }
    v
}

/// n arbitrary symbolic intervals (any order, may overlap)
fn any_sets(n: usize) -> [(u32, u32); NMAX] {
    let mut v = [(0u32, 0u32); NMAX];
    let mut i = 0;
    while i < n {
        let a = any_u32();
        let b = any_u32();
        assume(a <= b && b <= MAXC);
        v[i] = (a, b);
        i += 1;
    }
    v
}

fn build_push(v: &[(u32, u32); NMAX], n: usize) -> CharPartition {
    let mut p = CharPartition::new();
    let mut i = 0;
    while i < n {
        p.push(v[i].0, v[i].1);
        i += 1;
    }
    p
}

const PERMS3: [[usize; 3]; 6] = [[0, 1, 2], [0, 2, 1], [1, 0, 2], [1, 2, 0], [2, 0, 1], [2, 1, 0]];
const PERMS4: [[usize; 4]; 24] = [
    [0, 1, 2, 3], [0, 1, 3, 2], [0, 2, 1, 3], [0, 2, 3, 1], [0, 3, 1, 2], [0, 3, 2, 1],
    [1, 0, 2, 3], [1, 0, 3, 2], [1, 2, 0, 3], [1, 2, 3, 0], [1, 3, 0, 2], [1, 3, 2, 0],
    [2, 0, 1, 3], [2, 0, 3, 1], [2, 1, 0, 3], [2, 1, 3, 0], [2, 3, 0, 1], [2, 3, 1, 0],
    [3, 0, 1, 2], [3, 0, 2, 1], [3, 1, 0, 2], [3, 1, 2, 0], [3, 2, 0, 1], [3, 2, 1, 0],
];

fn perm(n: usize, k: usize, i: usize) -> usize {
    match n {
        0 | 1 => 0,
        2 => if k % 2 == 0 { i } else { 1 - i },
        3 => PERMS3[k % 6][i],
        _ => PERMS4[k % 24][i],
    }
}

/// build the partition for intervals v[0..n] in the way selected by `mode`
/// 0: push; 1: try_from_iter on a permutation (param 2); 2: from_set (n must be 1); 3: try_from_list on a permutation
fn build_mode(v: &[(u32, u32); NMAX], n: usize, mode: u32, pk: usize) -> CharPartition {
    match mode {
        0 => build_push(v, n),
        2 => CharPartition::from_set(&CharSet::range(v[0].0, v[0].1)),
        _ => {
            let mut l: Vec<CharSet> = Vec::new();
            let mut i = 0;
            while i < n {
                let j = perm(n, pk, i);
                l.push(CharSet::range(v[j].0, v[j].1));
                i += 1;
            }
            let r = if mode == 1 { CharPartition::try_from_iter(l.iter().copied()) } else { CharPartition::try_from_list(&l) };
            match r {
                Ok(p) => p,
                Err(_) => {
                    check(false, 100); // disjoint inputs must be accepted
                    CharPartition::new()
                }
            }
        }
    }
}

fn inside(v: &[(u32, u32); NMAX], i: usize, x: u32) -> bool {
    (v[i].0 <= x) & (x <= v[i].1)
}

fn covered(v: &[(u32, u32); NMAX], n: usize, x: u32) -> bool {
    let mut r = false;
    let mut i = 0;
    while i < n {
        r = r | inside(v, i, x);
        i += 1;
    }
    r
}

/// spec: complement class is empty iff the intervals tile [0, MAX]
fn tiles(v: &[(u32, u32); NMAX], n: usize) -> bool {
    if n == 0 {
        return false;
    }
    let mut r = (v[0].0 == 0) & (v[n - 1].1 == MAXC);
    let mut i = 1;
    while i < n {
        r = r & (v[i - 1].1.wrapping_add(1) == v[i].0);
        i += 1;
    }
    r
}

// ---------------------------------------------------------------------------------------------
// C11: params: 0 = n, 1 = construction mode, 2 = permutation index, 3 = query group
//   group 0: class_of_char + structure; 1: interval_cover/class_of_set/good_char_set;
//   group 2: complement witness / num_classes / valid_class_id / class_ids / picks
#[no_mangle]
pub extern "C" fn vh_c11_queries() {
    let n = param(0) as usize;
    let mode = param(1);
    let pk = param(2) as usize;
    let group = param(3);
    let v = any_intervals(n);
    let p = build_mode(&v, n, mode, pk);

    // structure: same intervals in sorted order whatever the construction
    check(p.len() == n, 1);
    let mut i = 0;
    while i < n {
        check(p.get(i) == v[i], 2);
        check((p.start(i) == v[i].0) & (p.end(i) == v[i].1), 3);
        check(p.interval(i) == CharSet::range(v[i].0, v[i].1), 4);
        i += 1;
    }
    check(p.get(n) == (MAXC + 1, MAXC + 1), 5);
    check(p.is_empty() == (n == 0), 6);

    if group == 0 {
        let x = any_char();
        match p.class_of_char(x) {
            ClassId::Interval(i) => {
                check(i < n, 10);
                if i < n {
                    check(inside(&v, i, x), 11);
                }
            }
            ClassId::Complement => check(!covered(&v, n, x), 12),
        }
        cover(1);
    } else if group == 1 {
        let a = any_u32();
        let b = any_u32();
        assume(a <= b && b <= MAXC);
        let s = CharSet::range(a, b);
        // spec-level classification, branch-free
        let mut cov_any = false;
        let mut disj_all = true;
        let mut i = 0;
        while i < n {
            cov_any = cov_any | ((v[i].0 <= a) & (b <= v[i].1));
            disj_all = disj_all & ((b < v[i].0) | (a > v[i].1));
            i += 1;
        }
        let r = p.interval_cover(&s);
        match r {
            CoverResult::CoveredBy(i) => {
                check(i < n, 20);
                if i < n {
                    check((v[i].0 <= a) & (b <= v[i].1), 21);
                }
            }
            CoverResult::DisjointFromAll => check(disj_all, 22),
            CoverResult::Overlaps => check(!cov_any & !disj_all, 23),
        }
        match p.class_of_set(&s) {
            Ok(ClassId::Interval(i)) => check(r == CoverResult::CoveredBy(i), 24),
            Ok(ClassId::Complement) => check(r == CoverResult::DisjointFromAll, 25),
            Err(e) => check((r == CoverResult::Overlaps) & (e == Error::AmbiguousCharSet), 26),
        }
        check(p.good_char_set(&s) == (cov_any | disj_all), 27);
        cover(2);
    } else {
        let w = p.pick_complement();
        let t = tiles(&v, n);
        check(w <= MAXC + 1, 30);
        check(p.empty_complement() == t, 31);
        check((w == MAXC + 1) == t, 32);
        check((w > MAXC) | !covered(&v, n, w), 33);
        // least witness: every y below w is covered
        let y = any_char();
        check((y >= w) | covered(&v, n, y), 34);
        check(p.num_classes() == if t { n } else { n + 1 }, 35);
        let k = any_u64() as usize;
        check(p.valid_class_id(ClassId::Interval(k)) == (k < n), 36);
        check(p.valid_class_id(ClassId::Complement) == !t, 37);
        // class_ids and picks
        let ids: Vec<ClassId> = p.class_ids().collect();
        check(ids.len() == p.num_classes(), 38);
        check(p.class_ids().size_hint() == (ids.len(), Some(ids.len())), 39);
        let picks: Vec<u32> = p.picks().collect();
        check(picks.len() == ids.len(), 40);
        let mut i = 0;
        while i < ids.len() && i < picks.len() {
            if i < n {
                check(ids[i] == ClassId::Interval(i), 41);
                check(inside(&v, i, picks[i]), 42);
                check(inside(&v, i, p.pick(i)), 43);
                check(inside(&v, i, p.pick_in_class(ClassId::Interval(i))), 44);
            } else {
                check(ids[i] == ClassId::Complement, 45);
                check((picks[i] <= MAXC) & !covered(&v, n, picks[i]), 46);
                check(p.pick_in_class(ClassId::Complement) == picks[i], 47);
            }
            i += 1;
        }
        let m = p.ranges().count();
        check(m == n, 48);
        cover(3);
    }
}

// C11: try_from_iter succeeds exactly on pairwise disjoint inputs and is order independent
// params: 0 = n, 1 = api (1 iter / 3 list)
#[no_mangle]
pub extern "C" fn vh_c11_try_from() {
    let n = param(0) as usize;
    let api = param(1);
    let v = any_sets(n);
    let mut disjoint = true;
    let mut i = 0;
    while i < n {
        let mut j = i + 1;
        while j < n {
            disjoint = disjoint & ((v[i].1 < v[j].0) | (v[j].1 < v[i].0));
            j += 1;
        }
        i += 1;
    }
    let mut l: Vec<CharSet> = Vec::new();
    let mut i = 0;
    while i < n {
        l.push(CharSet::range(v[i].0, v[i].1));
        i += 1;
    }
    let r = if api == 1 { CharPartition::try_from_iter(l.iter().copied()) } else { CharPartition::try_from_list(&l) };
    match r {
        Err(e) => {
            check(!disjoint, 50);
            check(e == Error::NonDisjointCharSets, 51);
        }
        Ok(p) => {
            check(disjoint, 52);
            check(p.len() == n, 53);
            // sorted, and a permutation of the input: every input interval appears
            let mut i = 0;
            while i + 1 < p.len() {
                check(p.end(i) < p.start(i + 1), 54);
                i += 1;
            }
            let mut i = 0;
            while i < n {
                let mut found = false;
                let mut j = 0;
                while j < p.len() {
                    found = found | (p.get(j) == v[i]);
                    j += 1;
                }
                check(found, 55);
                i += 1;
            }
            // same partition (incl. witness) as the sorted push construction, and as the reversed input order
            let mut q = CharPartition::new();
            let mut j = 0;
            while j < p.len() {
                let (a, b) = p.get(j);
                q.push(a, b);
                j += 1;
            }
            check(p == q, 56);
            let mut lr = l.clone();
            lr.reverse();
            match CharPartition::try_from_list(&lr) {
                Ok(p2) => check(p2 == p, 57),
                Err(_) => check(false, 58),
            }
            // complement witness of the result is right
            let w = p.pick_complement();
            let y = any_char();
            let mut cov_y = false;
            let mut cov_w = false;
            let mut i = 0;
            while i < n {
                cov_y = cov_y | ((v[i].0 <= y) & (y <= v[i].1));
                cov_w = cov_w | ((v[i].0 <= w) & (w <= v[i].1));
                i += 1;
            }
            check((y >= w) | cov_y, 59);
            check((w <= MAXC + 1) & !cov_w, 60);
        }
    }
    cover(4);
}
