// Harnesses for src/loop_ranges.rs (C15).  A range is drawn as (kind, a, b): kind 0 = finite [a,b], 1 = [a, inf).
#![allow(dead_code, missing_docs, unused_imports, clippy::all)]

use super::*;
use crate::vapi::*;

#[derive(Clone, Copy)]
struct R {
    inf: bool,
    a: u32,
    b: u32,
    r: LoopRange,
}

/// symbolic range of the given kind with parameters <= bound
fn any_range(inf: bool, bound: u32) -> R {
    let a = any_u32();
    let b = any_u32();
    assume(a <= bound);
    if inf {
        R { inf, a, b: 0, r: LoopRange::infinite(a) }
    } else {
        assume(a <= b && b <= bound);
        R { inf, a, b, r: LoopRange::finite(a, b) }
    }
}

/// set membership, written from the definition
fn mem(r: &R, x: u32) -> bool {
    (r.a <= x) & (r.inf | (x <= r.b))
}

fn is(r: &LoopRange, inf: bool, a: u32, b: u32) -> bool {
    if inf { *r == LoopRange::infinite(a) } else { *r == LoopRange::finite(a, b) }
}

// params: 0 = kind of r, 1 = kind of s, 2 = group
//  group 0: contains / includes / predicates  (full u32)
//  group 1: add, add_point (full u32, no-overflow precondition) ; group 2: add overflow must panic
//  group 3: shift (full u32)
#[no_mangle]
pub extern "C" fn vh_c15_basic() {
    let ri = param(0) == 1;
    let si = param(1) == 1;
    let group = param(2);
    let r = any_range(ri, u32::MAX);
    let s = any_range(si, u32::MAX);
    let x = any_u32();
    let y = any_u32();
    if group == 0 {
        check(r.r.contains(x) == mem(&r, x), 1);
        check(r.r.start() == r.a, 2);
        check(r.r.is_finite() == !ri && r.r.is_infinite() == ri, 3);
        check(r.r.is_point() == (!ri & (r.a == r.b)), 4);
        check(r.r.is_zero() == (!ri & (r.a == 0) & (r.b == 0)), 5);
        check(r.r.is_one() == (!ri & (r.a == 1) & (r.b == 1)), 6);
        check(r.r.is_all() == (ri & (r.a == 0)), 7);
        // includes: sound for every member x of s; complete by witnesses (start of s, end of s, or unboundedness)
        let inc = r.r.includes(&s.r);
        check(!inc | !mem(&s, x) | mem(&r, x), 8);
        check(inc | !mem(&r, s.a) | (!si & !mem(&r, s.b)) | (si & !ri), 9);
        check(!inc | ri | !si, 10);
        check(LoopRange::point(x) == LoopRange::finite(x, x), 11);
        check((LoopRange::opt() == LoopRange::finite(0, 1)) & (LoopRange::star() == LoopRange::infinite(0)) & (LoopRange::plus() == LoopRange::infinite(1)), 12);
        cover(1);
    } else if group == 1 {
        // precondition: the sums of the parameters do not overflow
        assume(r.a <= u32::MAX - s.a);
        assume(ri | si | (r.b <= u32::MAX - s.b));
        assume(mem(&r, x) & mem(&s, y));
        assume(x <= u32::MAX - y);
        let t = r.r.add(&s.r);
        let tinf = ri | si;
        let tt = R { inf: tinf, a: t.start(), b: if tinf { 0 } else { t.end() }, r: t };
        check(t.is_infinite() == tinf, 20);
        // every sum is a member
        check(mem(&tt, x + y), 21);
        // every member z is a sum u+v: Skolem witness u = max(a, z - d) (d = end of s if finite), v = z - u
        let z = any_u32();
        assume(mem(&tt, z));
        let lo = if si { 0 } else { z.saturating_sub(s.b) };
        let u = if lo > r.a { lo } else { r.a };
        let v = z.wrapping_sub(u);
        check((u <= z) & mem(&r, u) & mem(&s, v), 22);
        if ri | !si {
            check(r.r.add_point(s.a) == r.r.add(&LoopRange::point(s.a)), 23);
        }
        cover(2);
    } else if group == 2 {
        // overflow of a bound must panic, never return a wrapped range
        let ov = (r.a > u32::MAX - s.a) | (!ri & !si & (r.b > u32::MAX - s.b));
        assume(ov);
        expect_panic(25);
        let _ = r.r.add(&s.r);
    } else {
        let t = r.r.shift();
        let tt = R { inf: ri, a: t.start(), b: if ri { 0 } else { t.end() }, r: t };
        check(t.is_infinite() == ri, 30);
        // predecessor of every member (0 stays 0) is a member of the shifted range
        check(!mem(&r, x) | mem(&tt, x.saturating_sub(1)), 31);
        // every member y of the shifted range is the predecessor of a member: y+1 in r, or y = 0 and 0 in r
        check(!mem(&tt, y) | ((y < u32::MAX) & mem(&r, y.wrapping_add(1))) | ((y == 0) & mem(&r, 0)) | ((y == u32::MAX) & ri), 32);
        cover(3);
    }
}

// scale: params 0 = kind of r, 1 = mode (0: k concrete = param 2, full-width parameters; 1: k symbolic <= param 2, parameters <= param 3)
#[no_mangle]
pub extern "C" fn vh_c15_scale() {
    let ri = param(0) == 1;
    let symk = param(1) == 1;
    let pb = if symk { param(3) } else { u32::MAX };
    let r = any_range(ri, pb);
    let k = if symk { any_in(0, param(2)) } else { param(2) };
    check(r.r.scale(0) == LoopRange::point(0), 40);
    check(r.r.scale(1) == r.r, 41);
    // no overflow for k+1 (64-bit products in the harness, not in the code under test)
    let top = if ri { r.a } else { r.b };
    assume((top as u64) * ((k as u64) + 1) <= u32::MAX as u64);
    let sk = r.r.scale(k);
    let sk1 = r.r.scale(k + 1);
    // (k+1)-fold sum = k-fold sum + r   (with scale(0) = {0} and exactness of add this is the k-fold sum, by induction)
    if k == 0 {
        check(sk1 == r.r, 42);
    } else {
        check(sk1 == sk.add(&r.r), 43);
    }
    cover(4);
}

// scale overflow panics. param 0 = kind
#[no_mangle]
pub extern "C" fn vh_c15_scale_overflow() {
    let ri = param(0) == 1;
    let r = any_range(ri, u32::MAX);
    let k = any_u32();
    assume(k >= 1);
    let top = if ri { r.a } else { r.b };
    assume((top as u64) * (k as u64) > u32::MAX as u64);
    expect_panic(45);
    let _ = r.r.scale(k);
}

// mul and right_mul_is_exact with parameters bounded by B = param(2); params 0,1 = kinds
#[no_mangle]
pub extern "C" fn vh_c15_mul() {
    let ri = param(0) == 1;
    let si = param(1) == 1;
    let bound = param(2);
    let r = any_range(ri, bound);
    let s = any_range(si, bound);
    // symbolic members (bounded so that products stay small)
    let u = any_u32();
    let v = any_u32();
    assume(u <= 2 * bound && v <= 2 * bound);
    assume(mem(&r, u) & mem(&s, v));
    let xmax = bound * bound + 2 * bound + 2;
    let x = any_u32();
    assume(x <= xmax);
    let m = r.r.mul(&s.r);
    let minf = m.is_infinite();
    let mm = R { inf: minf, a: m.start(), b: if minf { 0 } else { m.end() }, r: m };
    // mul contains every product
    check(mem(&mm, u.wrapping_mul(v)), 50);
    // K = union over y in s of [y*a, y*b]; y up to xmax suffices for x <= xmax
    let mut in_k = false;
    let mut y = 0u32;
    while y <= xmax {
        let lo = y.wrapping_mul(r.a);
        let hi = y.wrapping_mul(r.b);
        in_k = in_k | (mem(&s, y) & (lo <= x) & (ri | (x <= hi)) & ((y > 0) | (x == 0)));
        y += 1;
    }
    // K is always inside mul
    check(!in_k | mem(&mm, x), 51);
    let exact = r.r.right_mul_is_exact(&s.r);
    // exact => every x of mul (up to the bound) is in K
    check(!exact | !mem(&mm, x) | in_k, 52);
    // not exact => some x of mul is outside K: the solver looks for it among x <= xmax through the free input w
    // (Skolemised: the gap after y = c, or 1 when r is unbounded and s contains 0)
    let w = if ri { 1 } else { s.a.wrapping_mul(r.b).wrapping_add(1) };
    let mut w_in_k = false;
    let mut y = 0u32;
    while y <= xmax {
        let lo = y.wrapping_mul(r.a);
        let hi = y.wrapping_mul(r.b);
        w_in_k = w_in_k | (mem(&s, y) & (lo <= w) & (ri | (w <= hi)) & ((y > 0) | (w == 0)));
        y += 1;
    }
    check(exact | (mem(&mm, w) & !w_in_k), 53);
    cover(5);
}
